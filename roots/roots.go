// Package verifroots is the registry of package-level variables used by the
// simulation harness' shared-state fingerprint. It is added to the build only
// through `go build -overlay` by /verif/check and imports nothing.
package verifroots

// Root is one package-level variable.
type Root struct {
	Name string
	Ptr  any // pointer to the variable
}

// Pkg is the roots of one package.
type Pkg struct {
	Path  string
	Roots []Root
}

// All registered packages, in registration (init) order.
var All []Pkg

// Register is called from generated init functions.
func Register(path string, roots []Root) {
	All = append(All, Pkg{Path: path, Roots: roots})
}
