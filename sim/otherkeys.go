package verifsim

// Private keys of kinds other than the P-256 keys GOBL signs with: valid JWKs
// that a caller may well hand over. Signing with them must be refused with an
// error, never crash.
var otherKindPrivJWK = []string{
	`{"use":"sig","kty":"OKP","kid":"sim-other-kind","crv":"Ed25519","x":"ji3o64Q59kn0Sv2TuB_IoKbx5vdTszubQlApKRxaySo","d":"kmKeojJGxej8HZ7D8kqoYjQzw5uMs3X3SjnvHQf3ZHM"}`,
	`{"use":"sig","kty":"RSA","kid":"sim-other-kind","n":"uG3Jk-0-KPhzy_2YoMvOfGewPzKWW3l621xRsguAuS18kKfY6LhPKhEPp26RYdvqfcNAWdBNfjdZ5Ne01s2mUy0Y-dedSi2wdud2KqrDi2ap_DdHhjbTz_dharwO-hWIQoH7Ya9zdj7WXwnNEzGcrnS7x1nmkmpgc_Hm5TDqJsnmwjKI9MhKrLSfoFniU5wb7ti9kKUTsAUxYmSp2X6SbcxZqu6PIBcBpd3opcjtHfL0dg5CUTlKZDU_CzDXITCyMjLQ2dmDaIaD91RGkRMzJ_bLhb_5XVTJx4MnbVAVP4NnIxTIlryHtX_yXDVfySBzU-87ZurZU63mWfY9OWHdXQ","e":"AQAB","d":"EFnJaog4v9ShHYd26eCPxqdBsKSpQGRhgEOryYNsDt7JwaBj4mP-vr3C-8bZdEnVPP-bu6q0SBmbqmZ2VannUk33_iR_wSUSVURZjVhU3E3GicIT4QII3tHxjM8t672PdkgEU6mErMnO4x-hEw_NsojOYhLmFnqAYR8j55Nh2vzaYwS1C00LSqqg5UQHUu9IJawOIHTuPwMP0MV8a_zRIA-x-6H9PhWWb8980DQ6q5K7LY1NID-JzJX6qutfTCNMaqNrFlxWi1EjvVW49YxcxhXbsaf_Qb1TKNbs_Qpt7skz2VRyfr2tdOk2bd9cBwp8v293pbOrj2xOne3Cb8EiOQ","p":"1HDRIE2d0pRtJfM4OxuXW8UhAb7ozXWwdeIfItLdAQpd7SloPM6no12OdGU7cz3nCh9M56YRXw6YavtJl3UIJsSQGEBZ2KnpEMvaiiiv68JAoAzn8k-HBkMULId9X_220BpyoFAc8Y-Z7jGaJD9YpYA49j1pT4LkqGQlHzLtTnk","q":"3j6bVYIvQa6xWVGfPhIzCDmolftvjotBeYobESqYfJB6yrEiAJVccY1d6U-ySGS3O10n6w0dwudiU9Rro8EmFf0rJ3bnYKaYHbo7WFA6jZ7OwQiGvZWX4fpEtkaSU5D9vnohT7Zc9YBKkYHjPfzopipTGSv1mmDHvgKqcxJQvQU","dp":"dHwTvzGv6wplutxdJdPgL3qsuYdToWz5v_mn9vFGK07i56q_tC_gLayb8uibK3py19MH2TDu739SRb7ZwEl0mcVH-XQ3j5zC5enRP9ZFd_FAfEH3YJ8Iu39GbZAxR9QXTI5j8dFbvXxu-_OIwH1XfxAKq8JKn0V3WXnn_O5wvok","dq":"wOsFubc1QEXdaxRAMAhqRhSO9Ap7rvfQ0SkCD-ey0EY2YOZcBregtG0rfRCSSOcsaxqVQSN0lzB1mSFGgrJyVhoasLo1ZR-X4g4735BdE3wsK0I0fDNz0VSG-tbNxD6TFRo8-k3p6a4AjMh8Mt3sMfmBgtM28lhaauUzgon-jeU","qi":"Jzx5Iqs-2turdXtIzGYvtMJ5DT6fZ9uEjGjM32g2vZhZzAsbZqkCO-4uA9ohgXfZ-Bv9kn_CYND17sckE2vUkm8BHAfE2_lyh79gDquzKFmMy9EsZgm1ElnrnAlFxfjrl1WCNYdUL6Euy-EbGx2Dtg-pmlsbKKAnhB2CL8Mbxqk"}`,
	// an EC key on another curve, and a symmetric key
	`{"kty":"oct","kid":"sim-oct","k":"c2ltdWxhdGVkLXN5bW1ldHJpYy1rZXktMzItYnl0ZXMhIQ"}`,
}
