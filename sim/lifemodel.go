package verifsim

import (
	"bytes"
	"context"
	"encoding/json"
	"fmt"
	"os"
	"path/filepath"
	"regexp"
	"sort"
	"strings"
	"sync"

	"github.com/invopop/gobl"
	"github.com/invopop/gobl/bill"
	"github.com/invopop/gobl/cbc"
	"github.com/invopop/gobl/dsig"
	"github.com/invopop/gobl/head"
	"github.com/invopop/gobl/internal"
	"github.com/invopop/gobl/note"
	"github.com/invopop/gobl/num"
	"github.com/invopop/gobl/org"
	"github.com/invopop/gobl/schema"
	"github.com/invopop/gobl/uuid"
)

// ---------------------------------------------------------------------------
// Reference model of the envelope lifecycle (C10) and of what a signature
// covers (C09). It is deliberately small: four facts and a list of snapshots.

// hdrSnap is a harness-owned deep copy of the seven header fields.
type hdrSnap struct {
	UUID   string
	Dig    string
	Stamps [][2]string
	Links  [][2]string
	Tags   []string
	Meta   map[string]string
	Notes  string
}

func snapHeader(h *head.Header) *hdrSnap {
	s := &hdrSnap{Meta: map[string]string{}}
	if h == nil {
		return s
	}
	s.UUID = h.UUID.String()
	if h.Digest != nil {
		s.Dig = string(h.Digest.Algorithm) + ":" + h.Digest.Value
	}
	for _, st := range h.Stamps {
		if st != nil {
			s.Stamps = append(s.Stamps, [2]string{st.Provider.String(), st.Value})
		}
	}
	for _, l := range h.Links {
		if l != nil {
			// the whole entry: a link is what was signed, not only its key and address
			b, _ := json.Marshal(l)
			s.Links = append(s.Links, [2]string{l.Key.String(), string(b)})
		}
	}
	s.Tags = append(s.Tags, h.Tags...)
	for k, v := range h.Meta {
		s.Meta[k.String()] = v
	}
	s.Notes = h.Notes
	return s
}

// covers: does the current header still contain everything that was signed?
// Written from the property statement: identifier and digest equal; every signed
// stamp, link, tag and meta entry still present with the same value; signed notes
// unchanged. Additions are allowed.
func (cur *hdrSnap) covers(signed *hdrSnap) (bool, string) {
	if cur.UUID != signed.UUID {
		return false, "uuid"
	}
	if signed.Dig != "" && cur.Dig != signed.Dig {
		return false, "digest"
	}
	for _, s2 := range signed.Stamps {
		ok := false
		for _, s := range cur.Stamps {
			if s == s2 {
				ok = true
			}
		}
		if !ok {
			return false, "stamp"
		}
	}
	for _, l2 := range signed.Links {
		ok := false
		for _, l := range cur.Links {
			if l == l2 {
				ok = true
			}
		}
		if !ok {
			return false, "link"
		}
	}
	for _, t2 := range signed.Tags {
		ok := false
		for _, t := range cur.Tags {
			if t == t2 {
				ok = true
			}
		}
		if !ok {
			return false, "tag"
		}
	}
	for _, k := range SortedKeys(signed.Meta) {
		if v, ok := cur.Meta[k]; !ok || v != signed.Meta[k] {
			return false, "meta"
		}
	}
	if signed.Notes != "" && signed.Notes != cur.Notes {
		return false, "notes"
	}
	return true, ""
}

type sigRec struct {
	key  int // pool index of the signer
	snap *hdrSnap
	real bool // produced by a signing operation (not injected garbage)
}

// lifeModel is the abstract state.
type lifeModel struct {
	digestMatches bool   // derived: the document's content equals the content the digest was computed over
	calcDoc       []byte // document bytes at the last successful calculation (what head.dig covers)
	liveEdited    bool   // the document was changed in memory since the last calculation
	sigs          []sigRec
	garbageSigs   bool // the signature list was damaged on disk
}

func (m *lifeModel) clone() *lifeModel {
	c := *m
	c.sigs = append([]sigRec{}, m.sigs...)
	return &c
}

// lifeSlot is one envelope together with its durable copy and model.
type lifeSlot struct {
	name    string
	kind    string
	env     *gobl.Envelope
	m       *lifeModel
	durable []byte
	durM    *lifeModel
	prevDur []byte
	prevM   *lifeModel
}

// docFacts asks the implementation, on a fresh parse of the current document
// bytes, whether the document is structurally valid unsigned / for signing.
// The lifecycle property is about outcomes being determined by these facts
// across histories, not about which documents are valid.
type docFacts struct {
	parse         bool
	validUnsigned bool
	validSigned   bool
	calcOK        bool
	hasCode       bool
	isInvoice     bool
	signMissing   string // a member the published schema calls "required to sign" that is absent or empty
}

var (
	factsMu    sync.Mutex
	factsCache = map[string]docFacts{}
)

// factsOf is memoised by document bytes (the facts are a function of the bytes).
func factsOf(env *gobl.Envelope) (f docFacts) {
	defer func() {
		if r := recover(); r != nil {
			f = docFacts{}
		}
	}()
	if env.Document == nil || env.Document.IsEmpty() {
		return
	}
	db, err := json.Marshal(env.Document)
	if err != nil {
		return
	}
	key := H(db)
	factsMu.Lock()
	if c, ok := factsCache[key]; ok {
		factsMu.Unlock()
		return c
	}
	factsMu.Unlock()
	defer func() {
		factsMu.Lock()
		if len(factsCache) > 20000 {
			factsCache = map[string]docFacts{}
		}
		factsCache[key] = f
		factsMu.Unlock()
	}()
	o := new(schema.Object)
	if err := json.Unmarshal(db, o); err != nil {
		return
	}
	f.parse = true
	f.validUnsigned = o.ValidateWithContext(context.Background()) == nil
	f.validSigned = o.ValidateWithContext(internal.SignedContext(context.Background())) == nil
	v, _ := ParseJV(db)
	if v != nil {
		f.isInvoice = strings.HasSuffix(v.Get("$schema").Str(), "/bill/invoice")
		f.hasCode = v.Get("code").Str() != ""
		for _, m := range signRequiredMembers(v.Get("$schema").Str()) {
			if v.Get(m) == nil || (v.Get(m).K == 's' && v.Get(m).S == "") {
				f.signMissing = m
				break
			}
		}
	}
	o2 := new(schema.Object)
	if json.Unmarshal(db, o2) == nil {
		f.calcOK = o2.Calculate() == nil
	}
	return
}

// headerFacts evaluates the header rules of the property statement from the
// observed header: stamps only on signed envelopes, no duplicate stamp
// providers or link keys, identifier and digest present.
func headerOK(h *head.Header, signed bool) (bool, string) {
	if h == nil {
		return false, "no-head"
	}
	if h.UUID.IsZero() {
		return false, "uuid"
	}
	switch h.UUID.Version() {
	case 1, 6, 7:
	default:
		return false, "uuid-version"
	}
	if h.Digest == nil {
		return false, "no-digest"
	}
	if !signed && len(h.Stamps) > 0 {
		return false, "stamps-unsigned"
	}
	seen := map[string]bool{}
	for _, s := range h.Stamps {
		if s == nil {
			continue
		}
		if s.Provider == "" || s.Value == "" {
			return false, "stamp-blank"
		}
		if seen[s.Provider.String()] {
			return false, "stamp-dup"
		}
		seen[s.Provider.String()] = true
	}
	seen = map[string]bool{}
	for _, l := range h.Links {
		if l == nil {
			continue
		}
		if l.Key == "" || l.URL == "" {
			return false, "link-blank"
		}
		if seen[l.Key.String()] {
			return false, "link-dup"
		}
		seen[l.Key.String()] = true
	}
	return true, ""
}

// refreshDigestFact recomputes the abstract fact "the digest matches the
// document" by comparing content (harness JSON comparison, not gobl's digest).
func (s *lifeSlot) refreshDigestFact() {
	// (an in-memory edit does not by itself make the digest stale: a later edit may put the
	// old value back, and the fact is about content)
	cur, err := json.Marshal(s.env.Document)
	if err != nil || s.m.calcDoc == nil {
		s.m.digestMatches = false
		return
	}
	a, _ := ParseJV(cur)
	b, _ := ParseJV(s.m.calcDoc)
	s.m.digestMatches = a != nil && b != nil && a.Equal(b)
}

// markCalculated records that head.dig now covers the current document.
func (s *lifeSlot) markCalculated() {
	s.m.calcDoc, _ = json.Marshal(s.env.Document)
	s.m.digestMatches = true
	s.m.liveEdited = false
}

// predictValidate: "" (ok), "validation" or "digest".
func (s *lifeSlot) predictValidate(signed bool) (string, string) {
	s.refreshDigestFact()
	f := factsOf(s.env)
	hok, why := headerOK(s.env.Head, signed)
	docOK := f.validUnsigned
	if signed {
		docOK = f.validSigned
		// the model's own rule (bill/invoice.go documents it as "required to sign
		// invoice"): an invoice without a code is not valid for signing
		if f.isInvoice && !f.hasCode {
			docOK = false
		}
		// and what the published schemas say of their own members ("can be left
		// empty initially, but is **required** to **sign** the document")
		if f.signMissing != "" {
			docOK = false
		}
	}
	if s.env.Schema == "" {
		return "validation", "no-schema"
	}
	if !hok {
		return "validation", "header:" + why
	}
	if !docOK {
		return "validation", "doc"
	}
	if !s.m.digestMatches {
		return "digest", "stale"
	}
	return "", ""
}

// abstract state string for coverage accounting.
func (s *lifeSlot) abstract() string {
	s.refreshDigestFact()
	f := factsOf(s.env)
	class := "invalid"
	if f.validSigned {
		class = "valid"
	} else if f.validUnsigned {
		class = "valid-unless-signed"
	}
	n := len(s.m.sigs)
	if n > 2 {
		n = 2
	}
	cov := true
	cur := snapHeader(s.env.Head)
	for _, sg := range s.m.sigs {
		if ok, _ := cur.covers(sg.snap); !ok {
			cov = false
		}
	}
	hok, _ := headerOK(s.env.Head, n > 0)
	return fmt.Sprintf("dig=%v doc=%s sigs=%d covers=%v hdr=%v", s.m.digestMatches, class, n, cov, hok)
}

// ---------------------------------------------------------------------------
// shared operations

var stampProviders = []string{"sim-prv-a", "sim-prv-b", "sim-prv-c"}
var linkKeys = []string{"pdf", "portal", "xml"}
var linkURLs = []string{"https://example.com/doc.pdf", "https://example.org/a/b?c=d", "https://files.example.net/x.xml"}
var altUUIDs = []string{"01900000-aaaa-7000-8000-0000000000aa", "01900000-bbbb-7000-8000-0000000000bb"}

// setDocBytes replaces the envelope's document with a parse of the given bytes.
func setDocBytes(env *gobl.Envelope, db []byte) error {
	o := new(schema.Object)
	if err := json.Unmarshal(db, o); err != nil {
		return err
	}
	env.Document = o
	return nil
}

// lifeEdit applies a content edit to the live document (through its JSON form).
// Returns whether content changed.
func lifeEdit(env *gobl.Envelope, op Op) bool {
	db, err := json.Marshal(env.Document)
	if err != nil {
		return false
	}
	v, err := ParseJV(db)
	if err != nil {
		return false
	}
	changed := false
	switch op.S {
	case "invalid":
		// make the document structurally invalid: drop the supplier's name (or the key field of other types)
		if sup := v.Get("supplier"); sup != nil && sup.Get("name") != nil {
			changed = sup.Del("name")
		} else if v.Get("name") != nil {
			changed = v.Del("name")
		}
	case "nocalc":
		// make the document impossible to calculate: a tax category nobody defines
		if ls := v.Get("lines"); ls != nil && ls.K == 'a' && len(ls.A) > 0 && ls.A[0].K == 'o' {
			if ts := ls.A[0].Get("taxes"); ts != nil && ts.K == 'a' && len(ts.A) > 0 && ts.A[0].K == 'o' && ts.A[0].Get("cat").Str() != "XYZ" {
				ts.A[0].Set("sim-cat", JStr(ts.A[0].Get("cat").Str()))
				ts.A[0].Del("sim-cat")
				ts.A[0].Set("cat", JStr("XYZ"))
				changed = true
			}
		}
	case "fixnocalc":
		if ls := v.Get("lines"); ls != nil && ls.K == 'a' && len(ls.A) > 0 && ls.A[0].K == 'o' {
			if ts := ls.A[0].Get("taxes"); ts != nil && ts.K == 'a' && len(ts.A) > 0 && ts.A[0].K == 'o' && ts.A[0].Get("cat").Str() == "XYZ" {
				ts.A[0].Set("cat", JStr("VAT"))
				changed = true
			}
		}
	case "fixinvalid":
		if sup := v.Get("supplier"); sup != nil && sup.Get("name") == nil {
			sup.Set("name", JStr("Restored Supplier S.L."))
			changed = true
		} else if v.Get("supplier") == nil && v.Get("name") == nil {
			v.Set("name", JStr("Restored Name"))
			changed = true
		}
	case "live-qty", "live-note":
		// an in-memory edit through the typed API (no serialisation involved)
		inv, _ := env.Extract().(*bill.Invoice)
		if inv == nil {
			if msg, ok := env.Extract().(*note.Message); ok && msg != nil {
				msg.Content = msg.Content + " (edited in memory)"
				return true
			}
			return false
		}
		if op.S == "live-qty" {
			if len(inv.Lines) == 0 {
				return false
			}
			inv.Lines[0].Quantity = inv.Lines[0].Quantity.Add(num.MakeAmount(1, 0))
			return true
		}
		inv.Notes = append(inv.Notes, &org.Note{Text: "added in memory"})
		return true
	case "setcode":
		if v.Get("code").Str() != op.S2 {
			v.Set("code", JStr(op.S2))
			changed = true
		}
	default:
		changed = applyDocEdit(v, op)
	}
	if !changed {
		return false
	}
	old := env.Document
	if err := setDocBytes(env, v.Encode(nil)); err != nil {
		return false
	}
	// what counts is the document as the reader sees it (members the document
	// type does not define are not part of its content)
	nb, err := json.Marshal(env.Document)
	if err != nil {
		env.Document = old
		return false
	}
	ov, _ := ParseJV(db)
	nv, _ := ParseJV(nb)
	if ov != nil && nv != nil && ov.Equal(nv) {
		env.Document = old
		return false
	}
	return true
}

func keyFor(op Op) *dsig.PrivateKey {
	switch op.S {
	case "pubonly":
		return PublicOnlyAsPrivate(int(op.I))
	case "empty":
		return new(dsig.PrivateKey)
	}
	return PrivKey(int(op.I))
}

// realSigs checks "every entry in the signature list is a real signature".
func realSigs(env *gobl.Envelope) (bool, string) {
	for i, s := range env.Signatures {
		if s == nil {
			return false, fmt.Sprintf("entry %d is nil", i)
		}
		str := s.String()
		if str == "" {
			return false, fmt.Sprintf("entry %d is empty", i)
		}
		if _, err := dsig.ParseSignature(str); err != nil {
			return false, fmt.Sprintf("entry %d does not parse as a JWS: %v", i, err)
		}
	}
	return true, ""
}

// safely runs f and converts a panic into an error string.
func safely(f func()) (panicked string) {
	defer func() {
		if r := recover(); r != nil {
			panicked = fmt.Sprint(r)
		}
	}()
	f()
	return ""
}

func headerMutate(env *gobl.Envelope, op Op) (note string) {
	h := env.Head
	if h == nil {
		return "no-head"
	}
	switch op.K {
	case "stamp":
		h.AddStamp(&head.Stamp{Provider: cbc.Key(op.S), Value: op.S2})
	case "stamp-dup":
		if len(h.Stamps) == 0 {
			return "noop"
		}
		h.Stamps = append(h.Stamps, &head.Stamp{Provider: h.Stamps[0].Provider, Value: "dup-" + op.S2})
	case "stamp-alter":
		if len(h.Stamps) == 0 {
			return "noop"
		}
		st := h.Stamps[int(op.I)%len(h.Stamps)]
		if st.Value == op.S2 {
			return "noop"
		}
		// replace rather than write through: the signed snapshot must not alias
		h.Stamps[int(op.I)%len(h.Stamps)] = &head.Stamp{Provider: st.Provider, Value: op.S2}
	case "stamp-rm":
		if len(h.Stamps) == 0 {
			return "noop"
		}
		i := int(op.I) % len(h.Stamps)
		h.Stamps = append(append([]*head.Stamp{}, h.Stamps[:i]...), h.Stamps[i+1:]...)
	case "link":
		l := &head.Link{Key: cbc.Key(op.S), URL: op.S2}
		if op.I%2 == 1 {
			l.Title = "Document " + op.S
		}
		if op.I%4 >= 2 {
			l.MIME = "application/pdf"
		}
		h.AddLink(l)
	case "link-detail":
		// same key, same address, another title or media type
		if len(h.Links) == 0 {
			return "noop"
		}
		i := int(op.I) % len(h.Links)
		nl := *h.Links[i]
		if op.I%2 == 0 {
			nl.Title = "Changed " + nl.Title
		} else if nl.MIME == "text/html" {
			nl.MIME = "application/xml"
		} else {
			nl.MIME = "text/html"
		}
		h.Links[i] = &nl
	case "link-dup":
		if len(h.Links) == 0 {
			return "noop"
		}
		h.Links = append(h.Links, &head.Link{Key: h.Links[0].Key, URL: linkURLs[0]})
	case "link-alter":
		if len(h.Links) == 0 {
			return "noop"
		}
		i := int(op.I) % len(h.Links)
		if h.Links[i].URL == op.S2 {
			return "noop"
		}
		h.Links[i] = &head.Link{Key: h.Links[i].Key, URL: op.S2}
	case "link-rm":
		if len(h.Links) == 0 {
			return "noop"
		}
		i := int(op.I) % len(h.Links)
		h.Links = append(append([]*head.Link{}, h.Links[:i]...), h.Links[i+1:]...)
	case "tag":
		for _, t := range h.Tags {
			if t == op.S {
				return "noop"
			}
		}
		h.Tags = append(append([]string{}, h.Tags...), op.S)
	case "tag-rm":
		if len(h.Tags) == 0 {
			return "noop"
		}
		i := int(op.I) % len(h.Tags)
		h.Tags = append(append([]string{}, h.Tags[:i]...), h.Tags[i+1:]...)
	case "meta":
		m := cbc.Meta{}
		for k, v := range h.Meta {
			m[k] = v
		}
		if m[cbc.Key(op.S)] == op.S2 {
			return "noop"
		}
		m[cbc.Key(op.S)] = op.S2
		h.Meta = m
	case "meta-rm":
		if _, ok := h.Meta[cbc.Key(op.S)]; !ok {
			return "noop"
		}
		m := cbc.Meta{}
		for k, v := range h.Meta {
			if k != cbc.Key(op.S) {
				m[k] = v
			}
		}
		h.Meta = m
	case "notes":
		if h.Notes == op.S {
			return "noop"
		}
		h.Notes = op.S
	case "uuid":
		nu := uuid.UUID(altUUIDs[int(op.I)%len(altUUIDs)])
		if h.UUID == nu {
			return "noop"
		}
		h.UUID = nu
	}
	return ""
}

var headerOpKinds = []string{"stamp", "stamp-dup", "stamp-alter", "stamp-rm", "link", "link-dup", "link-alter", "link-detail", "link-rm", "tag", "tag-rm", "meta", "meta-rm", "notes", "uuid"}

func isHeaderOp(k string) bool {
	for _, h := range headerOpKinds {
		if h == k {
			return true
		}
	}
	return false
}

// corruptSigs rewrites the "sigs" member of stored envelope bytes.
func corruptSigs(b []byte, kind string) ([]byte, bool) {
	v, err := ParseJV(b)
	if err != nil {
		return nil, false
	}
	var arr *JV
	switch kind {
	case "empty":
		arr = &JV{K: 'a', A: []*JV{JStr("")}}
	case "null":
		arr = &JV{K: 'a', A: []*JV{{K: 'z'}}}
	case "garbage":
		arr = &JV{K: 'a', A: []*JV{JStr("not.a.jws")}}
	case "truncated":
		old := v.Get("sigs")
		if old == nil || len(old.A) == 0 {
			return nil, false
		}
		s := old.A[0].Str()
		arr = &JV{K: 'a', A: []*JV{JStr(s[:len(s)/2])}}
	case "append-empty":
		old := v.Get("sigs")
		if old == nil || len(old.A) == 0 {
			return nil, false
		}
		arr = &JV{K: 'a', A: append(append([]*JV{}, old.A...), JStr(""))}
	case "number":
		arr = &JV{K: 'a', A: []*JV{{K: 'n', S: "42"}}}
	default:
		return nil, false
	}
	v.Set("sigs", arr)
	return v.Encode(nil), true
}

func sortedCopy(s []string) []string {
	c := append([]string{}, s...)
	sort.Strings(c)
	return c
}

var _ = bytes.Equal

var (
	signReqMu sync.Mutex
	signReq   = map[string][]string{}
	signReqRe = regexp.MustCompile(`(?i)\*\*required\*\*\s+to\s+\*\*sign\*\*`)
)

// signRequiredMembers reads, from the published JSON schema of a document
// type, the top-level members whose description says they are required to sign.
func signRequiredMembers(id string) []string {
	signReqMu.Lock()
	defer signReqMu.Unlock()
	if l, ok := signReq[id]; ok {
		return l
	}
	var out []string
	if strings.HasPrefix(id, goblSchemaBase) {
		if b, err := os.ReadFile(filepath.Join(pubRepo, "data/schemas", strings.TrimPrefix(id, goblSchemaBase)+".json")); err == nil {
			var f struct {
				Ref  string `json:"$ref"`
				Defs map[string]struct {
					Properties map[string]struct {
						Description string `json:"description"`
					} `json:"properties"`
				} `json:"$defs"`
			}
			if json.Unmarshal(b, &f) == nil {
				if d, ok := f.Defs[strings.TrimPrefix(f.Ref, "#/$defs/")]; ok {
					for name, p := range d.Properties {
						if signReqRe.MatchString(p.Description) {
							out = append(out, name)
						}
					}
				}
			}
		}
	}
	sort.Strings(out)
	signReq[id] = out
	return out
}
