package verifsim

import (
	"encoding/json"
	"os"
	"path/filepath"
	"sort"
	"strings"
	"sync"
)

// Published scenario definitions (data/regimes/*.json, data/addons/*.json): the
// conditions under which a regime or addon adds notes and extensions to a
// document. Edits are derived from them so that every published scenario is
// reached by some document, not only those the shipped examples happen to meet.

type pubScenario struct {
	Types   []string `json:"type"`
	Tags    []string `json:"tags"`
	ExtKey  string   `json:"ext_key"`
	ExtCode string   `json:"ext_code"`
}

var (
	scenMu    sync.Mutex
	scenCache = map[string][]pubScenario{}
	pubRepo   string // set by LoadCorpus
)

func scenariosOf(kind, code string) []pubScenario {
	scenMu.Lock()
	defer scenMu.Unlock()
	k := kind + "/" + strings.ToLower(code)
	if s, ok := scenCache[k]; ok {
		return s
	}
	var f struct {
		Scenarios []struct {
			Schema string        `json:"schema"`
			List   []pubScenario `json:"list"`
		} `json:"scenarios"`
	}
	var out []pubScenario
	if b, err := os.ReadFile(filepath.Join(pubRepo, "data", kind, strings.ToLower(code)+".json")); err == nil && json.Unmarshal(b, &f) == nil {
		for _, s := range f.Scenarios {
			if s.Schema == "bill/invoice" {
				out = append(out, s.List...)
			}
		}
	}
	scenCache[k] = out
	return out
}

// docScenarios lists the published invoice scenarios of the document's regime and addons.
func docScenarios(doc *JV) []pubScenario {
	var out []pubScenario
	if r := docRegime(doc); r != "" {
		out = append(out, scenariosOf("regimes", r)...)
	}
	if al := doc.Get("$addons"); al != nil && al.K == 'a' {
		for _, a := range al.A {
			out = append(out, scenariosOf("addons", a.Str())...)
		}
	}
	return out
}

// applyScenario makes the invoice meet the conditions of published scenarios
// number i, j and k of its regime and addons (type, tags, and the extension
// value on a line's tax combo), as a user preparing such an invoice would.
func applyScenario(doc *JV, idx []int64) bool {
	if !strings.HasSuffix(doc.Get("$schema").Str(), "/bill/invoice") {
		return false
	}
	all := docScenarios(doc)
	if len(all) == 0 {
		return false
	}
	changed := false
	for n, i := range idx {
		if n > 0 && i%2 == 0 {
			continue // one scenario more often than several at once
		}
		sc := all[int(i)%len(all)]
		if len(sc.Types) > 0 {
			t := sc.Types[int(i/7)%len(sc.Types)]
			if doc.Get("type").Str() != t {
				doc.Set("type", JStr(t))
				changed = true
			}
			if t == "corrective" || t == "credit-note" || t == "debit-note" {
				if doc.Get("preceding") == nil {
					doc.Set("preceding", &JV{K: 'a', A: []*JV{{K: 'o', M: []JM{{"series", JStr("SIM")}, {"code", JStr("P-001")}, {"issue_date", JStr("2022-01-10")}, {"reason", JStr("simulated")}}}}})
				}
			}
		}
		if len(sc.Tags) > 0 {
			tags := doc.Get("$tags")
			if tags == nil || tags.K != 'a' {
				tags = &JV{K: 'a'}
				doc.Set("$tags", tags)
			}
			for _, t := range sc.Tags {
				have := false
				for _, e := range tags.A {
					if e.Str() == t {
						have = true
					}
				}
				if !have {
					tags.A = append(tags.A, JStr(t))
					changed = true
				}
			}
		}
		if sc.ExtKey != "" {
			lines := doc.Get("lines")
			if lines != nil && lines.K == 'a' && len(lines.A) > 0 {
				l := lines.A[n%len(lines.A)]
				if ts := l.Get("taxes"); ts != nil && ts.K == 'a' && len(ts.A) > 0 && ts.A[0].K == 'o' {
					c := ts.A[0]
					ext := c.Get("ext")
					if ext == nil || ext.K != 'o' {
						ext = &JV{K: 'o'}
						c.Set("ext", ext)
					}
					if ext.Get(sc.ExtKey).Str() != sc.ExtCode {
						ext.Set(sc.ExtKey, JStr(sc.ExtCode))
						changed = true
					}
				}
			}
		}
	}
	return changed
}

// ---------------------------------------------------------------------------
// members other documents carry at the same place

var (
	srcCatMu sync.Mutex
	srcCat   map[string]map[string][]string
)

// sourceCatalog: for each (schema, generic pointer) of the source documents of the
// corpus, the members seen there with up to four distinct sample values. Edits
// transplant them into documents that lack them, so that shapes no single shipped
// example has (a payment with delivery details, an order with advances, ...) occur.
func sourceCatalog() map[string]map[string][]string {
	srcCatMu.Lock()
	defer srcCatMu.Unlock()
	if srcCat != nil || theCorpus == nil {
		return srcCat
	}
	m := map[string]map[string][]string{}
	for _, d := range theCorpus.Valid {
		doc := c04sourceDoc(d)
		if doc == nil || doc.K != 'o' {
			continue
		}
		for _, n := range Walk(doc, "") {
			if n.V.K != 'o' {
				continue
			}
			g := typedPtr(doc, n.Ptr)
			if m[g] == nil {
				m[g] = map[string][]string{}
			}
			for _, mem := range n.V.M {
				if strings.HasPrefix(mem.Key, "$") || mem.Key == "uuid" {
					continue
				}
				val := string(mem.V.Encode(nil))
				have := false
				for _, e := range m[g][mem.Key] {
					if e == val {
						have = true
					}
				}
				if !have && len(m[g][mem.Key]) < 4 && len(val) < 4096 {
					m[g][mem.Key] = append(m[g][mem.Key], val)
				}
			}
		}
	}
	srcCat = m
	return m
}

// applyTransplant adds to one object of the document a member that other source
// documents of the corpus carry at the same place.
func applyTransplant(doc *JV, i, j, k int64) bool {
	cat := sourceCatalog()
	if cat == nil {
		return false
	}
	var objs []Node
	for _, n := range Walk(doc, "") {
		if n.V.K == 'o' {
			objs = append(objs, n)
		}
	}
	if len(objs) == 0 {
		return false
	}
	n := objs[int(i)%len(objs)]
	g := typedPtr(doc, n.Ptr)
	var cands []string
	for _, key := range SortedKeys(cat[g]) {
		if n.V.Get(key) == nil {
			cands = append(cands, key)
		}
	}
	if len(cands) == 0 {
		return false
	}
	key := cands[int(j)%len(cands)]
	samples := cat[g][key]
	val, err := ParseJV([]byte(samples[int(k)%len(samples)]))
	if err != nil {
		return false
	}
	n.V.Set(key, val)
	return true
}

// ---------------------------------------------------------------------------
// payment means keys: the ones the schema lists plus those a regime publishes

var (
	payKeyMu    sync.Mutex
	payKeyCache = map[string][]string{}
)

func payMeansKeys(regime string) []string {
	payKeyMu.Lock()
	defer payKeyMu.Unlock()
	if k, ok := payKeyCache[regime]; ok {
		return k
	}
	var out []string
	var sch struct {
		Defs map[string]struct {
			Properties map[string]struct {
				AnyOf []struct {
					Const string `json:"const"`
				} `json:"anyOf"`
			} `json:"properties"`
		} `json:"$defs"`
	}
	if b, err := os.ReadFile(filepath.Join(pubRepo, "data/schemas/pay/instructions.json")); err == nil && json.Unmarshal(b, &sch) == nil {
		for _, c := range sch.Defs["Instructions"].Properties["key"].AnyOf {
			if c.Const != "" {
				out = append(out, c.Const)
			}
		}
	}
	var reg struct {
		Keys []struct {
			Key string `json:"key"`
		} `json:"payment_means_keys"`
	}
	if b, err := os.ReadFile(filepath.Join(pubRepo, "data/regimes", strings.ToLower(regime)+".json")); err == nil && json.Unmarshal(b, &reg) == nil {
		for _, k := range reg.Keys {
			out = append(out, k.Key)
		}
	}
	payKeyCache[regime] = out
	payRegKeys[regime] = len(reg.Keys)
	return out
}

// payRegKeys: how many of a regime's keys (the last ones in payMeansKeys) are its own.
var payRegKeys = map[string]int{}

// applyPayKeys gives the document payment instructions (and its advances, if any) with one of
// the payment means keys defined for it.
// docRegime: the regime a document is calculated under, also before a first calculation wrote it down.
func docRegime(doc *JV) string {
	r := doc.Get("$regime").Str()
	if r == "" {
		if s := doc.Get("supplier"); s != nil && s.Get("tax_id") != nil {
			r = s.Get("tax_id").Get("country").Str()
		}
	}
	if r == "EL" {
		r = "GR" // the Greek regime is published as gr.json
	}
	return r
}

func applyPayKeys(doc *JV, i, j int64) bool {
	if doc.Get("lines") == nil {
		return false
	}
	keys := payMeansKeys(docRegime(doc))
	if len(keys) == 0 {
		return false
	}
	pay := doc.Get("payment")
	if pay == nil || pay.K != 'o' {
		pay = &JV{K: 'o'}
		doc.Set("payment", pay)
	}
	ins := pay.Get("instructions")
	if ins == nil || ins.K != 'o' {
		ins = &JV{K: 'o'}
		pay.Set("instructions", ins)
	}
	k := keys[int(i)%len(keys)]
	if n := payRegKeys[docRegime(doc)]; n > 0 && i%2 == 0 {
		// the keys the regime itself publishes are the ones its code looks at
		k = keys[len(keys)-n+int(i/2)%n]
	}
	changed := ins.Get("key").Str() != k
	ins.Set("key", JStr(k))
	if adv := pay.Get("advances"); adv != nil && adv.K == 'a' {
		for n, a := range adv.A {
			if a != nil && a.K == 'o' {
				a.Set("key", JStr(keys[(int(j)+n)%len(keys)]))
				changed = true
			}
		}
	}
	return changed
}

// ---------------------------------------------------------------------------
// grafts: array elements other documents carry at the same place

var (
	graftMu  sync.Mutex
	graftCat map[string][]string
)

func graftCatalog() map[string][]string {
	graftMu.Lock()
	defer graftMu.Unlock()
	if graftCat != nil || theCorpus == nil {
		return graftCat
	}
	m := map[string][]string{}
	for _, d := range theCorpus.Valid {
		doc := c04sourceDoc(d)
		if doc == nil || doc.K != 'o' {
			continue
		}
		for _, n := range Walk(doc, "") {
			if n.V.K != 'a' || len(n.V.A) == 0 {
				continue
			}
			g := typedPtr(doc, n.Ptr)
			for _, e := range n.V.A {
				if e == nil || e.K != 'o' {
					continue
				}
				c := e.Clone()
				c.Del("uuid")
				c.Del("i")
				val := string(c.Encode(nil))
				have := false
				for _, x := range m[g] {
					if x == val {
						have = true
					}
				}
				if !have && len(m[g]) < 6 && len(val) < 4096 {
					m[g] = append(m[g], val)
				}
			}
		}
	}
	graftCat = m
	return m
}

// applyGraft appends to one list of the document an entry that other source documents carry
// in the list at the same place (a second tax rate row, another line, another note ...).
func applyGraft(doc *JV, i, j int64) bool {
	cat := graftCatalog()
	if cat == nil {
		return false
	}
	var arrs []Node
	for _, n := range Walk(doc, "") {
		if n.V.K == 'a' && len(cat[typedPtr(doc, n.Ptr)]) > 0 {
			arrs = append(arrs, n)
		}
	}
	if len(arrs) == 0 {
		return false
	}
	n := arrs[int(i)%len(arrs)]
	samples := cat[typedPtr(doc, n.Ptr)]
	val, err := ParseJV([]byte(samples[int(j)%len(samples)]))
	if err != nil {
		return false
	}
	for _, e := range n.V.A {
		if e != nil && e.K == 'o' {
			c := e.Clone()
			c.Del("uuid")
			c.Del("i")
			if c.Equal(val) {
				return false // it is there already
			}
		}
	}
	n.V.A = append(n.V.A, val)
	return true
}

// ---------------------------------------------------------------------------
// extension codes: every value a published extension defines

var (
	extDefMu    sync.Mutex
	extDefCache map[string][]string
)

// extensionCodes maps each extension key published by any regime or addon to its codes.
func extensionCodes() map[string][]string {
	extDefMu.Lock()
	defer extDefMu.Unlock()
	if extDefCache != nil {
		return extDefCache
	}
	m := map[string][]string{}
	for _, pat := range []string{"data/regimes/*.json", "data/addons/*.json"} {
		files, _ := filepath.Glob(filepath.Join(pubRepo, pat))
		sort.Strings(files)
		for _, f := range files {
			var d struct {
				Extensions []struct {
					Key    string `json:"key"`
					Values []struct {
						Code string `json:"code"`
					} `json:"values"`
				} `json:"extensions"`
			}
			if b, err := os.ReadFile(f); err == nil && json.Unmarshal(b, &d) == nil {
				for _, e := range d.Extensions {
					for _, v := range e.Values {
						m[e.Key] = append(m[e.Key], v.Code)
					}
				}
			}
		}
	}
	extDefCache = m
	return m
}

// applyExtCode gives one extension entry of the document another of the codes its definition lists.
func applyExtCode(doc *JV, i, j int64) bool {
	defs := extensionCodes()
	type slot struct {
		obj *JV
		key string
	}
	var slots []slot
	for _, n := range Walk(doc, "") {
		if n.V.K == 'o' && n.Key == "ext" {
			for _, m := range n.V.M {
				if len(defs[m.Key]) > 1 {
					slots = append(slots, slot{n.V, m.Key})
				}
			}
		}
	}
	if len(slots) == 0 {
		return false
	}
	sl := slots[int(i)%len(slots)]
	codes := defs[sl.key]
	c := codes[int(j)%len(codes)]
	if j%6 == 5 {
		c = "" // the entry is there but was left empty
	}
	if sl.obj.Get(sl.key).Str() == c {
		return false
	}
	sl.obj.Set(sl.key, JStr(c))
	return true
}

// ---------------------------------------------------------------------------
// tax categories a regime publishes

type pubCatRate struct {
	Cat      string
	Retained bool
	Rate     string
}

var (
	catMu    sync.Mutex
	catCache = map[string][]pubCatRate{}
)

func regimeCategories(regime string) []pubCatRate {
	catMu.Lock()
	defer catMu.Unlock()
	if c, ok := catCache[regime]; ok {
		return c
	}
	var d struct {
		Categories []struct {
			Code     string `json:"code"`
			Retained bool   `json:"retained"`
			Rates    []struct {
				Key string `json:"key"`
			} `json:"rates"`
		} `json:"categories"`
	}
	var out []pubCatRate
	if b, err := os.ReadFile(filepath.Join(pubRepo, "data/regimes", strings.ToLower(regime)+".json")); err == nil && json.Unmarshal(b, &d) == nil {
		for _, c := range d.Categories {
			for _, r := range c.Rates {
				out = append(out, pubCatRate{c.Code, c.Retained, r.Key})
			}
		}
	}
	catCache[regime] = out
	return out
}

// applyAddCategory puts a further tax combo on one line: a category (and one of its rate keys) the
// regime publishes and the line does not carry yet — a retained tax next to VAT, a second levy.
func applyAddCategory(doc *JV, i, j int64) bool {
	lines := doc.Get("lines")
	if lines == nil || lines.K != 'a' || len(lines.A) == 0 {
		return false
	}
	cats := regimeCategories(docRegime(doc))
	if len(cats) == 0 {
		return false
	}
	l := lines.A[int(i)%len(lines.A)]
	if l == nil || l.K != 'o' {
		return false
	}
	ts := l.Get("taxes")
	if ts == nil || ts.K != 'a' {
		ts = &JV{K: 'a'}
		l.Set("taxes", ts)
	}
	have := map[string]bool{}
	for _, t := range ts.A {
		if t != nil && t.K == 'o' {
			have[t.Get("cat").Str()] = true
		}
	}
	var cands []pubCatRate
	for _, c := range cats {
		if !have[c.Cat] {
			cands = append(cands, c)
		}
	}
	if len(cands) == 0 {
		return false
	}
	c := cands[int(j)%len(cands)]
	ts.A = append(ts.A, &JV{K: 'o', M: []JM{{"cat", JStr(c.Cat)}, {"rate", JStr(c.Rate)}}})
	return true
}

var (
	idKeyMu    sync.Mutex
	idKeyCache = map[string][]string{}
)

// identityKeys: the identity keys a regime publishes (data/regimes/<cc>.json, "identities").
func identityKeys(regime string) []string {
	idKeyMu.Lock()
	defer idKeyMu.Unlock()
	if k, ok := idKeyCache[regime]; ok {
		return k
	}
	var out []string
	var reg struct {
		Identities []struct {
			Key string `json:"key"`
		} `json:"identities"`
	}
	if b, err := os.ReadFile(filepath.Join(pubRepo, "data/regimes", strings.ToLower(regime)+".json")); err == nil && json.Unmarshal(b, &reg) == nil {
		for _, k := range reg.Identities {
			if k.Key != "" {
				out = append(out, k.Key)
			}
		}
	}
	idKeyCache[regime] = out
	return out
}

// applyIDCodes gives a party identities with the keys its regime publishes and
// codes written the way people write them: digits of several lengths, plain or
// grouped, and letter-digit mixes. A normaliser has to bring each of them to
// its final form in one pass.
func applyIDCodes(doc *JV, i, j int64) bool {
	keys := identityKeys(docRegime(doc))
	if len(keys) == 0 {
		return false
	}
	who := []string{"supplier", "customer"}[int(i)%2]
	pty := doc.Get(who)
	if pty == nil || pty.K != 'o' {
		return false
	}
	r := RNG(i, j, 77)
	var ids []*JV
	for n := 0; n < 3; n++ {
		l := 8 + r.IntN(9)
		var b strings.Builder
		alnum := r.IntN(5) == 0
		for k := 0; k < l; k++ {
			switch {
			case alnum && r.IntN(2) == 0:
				b.WriteByte(byte('A' + r.IntN(26)))
			case r.IntN(3) == 0:
				b.WriteByte('0')
			default:
				b.WriteByte(byte('0' + r.IntN(10)))
			}
			if sep := r.IntN(12); sep < 3 && k > 0 && k < l-1 {
				b.WriteString([]string{"/", " ", "-"}[sep])
			}
		}
		ids = append(ids, &JV{K: 'o', M: []JM{{"key", JStr(keys[r.IntN(len(keys))])}, {"code", JStr(b.String())}}})
	}
	pty.Set("identities", &JV{K: 'a', A: ids})
	return true
}
