package verifsim

import (
	"encoding/json"
	"os"
	"path/filepath"
	"strings"
	"sync"
)

// Published scenario definitions (data/regimes/*.json, data/addons/*.json): the
// conditions under which a regime or addon adds notes and extensions to a
// document. Edits are derived from them so that every published scenario is
// reached by some document, not only those the shipped examples happen to meet.

type pubScenario struct {
	Types   []string `json:"type"`
	Tags    []string `json:"tags"`
	ExtKey  string   `json:"ext_key"`
	ExtCode string   `json:"ext_code"`
}

var (
	scenMu    sync.Mutex
	scenCache = map[string][]pubScenario{}
	pubRepo   string // set by LoadCorpus
)

func scenariosOf(kind, code string) []pubScenario {
	scenMu.Lock()
	defer scenMu.Unlock()
	k := kind + "/" + strings.ToLower(code)
	if s, ok := scenCache[k]; ok {
		return s
	}
	var f struct {
		Scenarios []struct {
			Schema string        `json:"schema"`
			List   []pubScenario `json:"list"`
		} `json:"scenarios"`
	}
	var out []pubScenario
	if b, err := os.ReadFile(filepath.Join(pubRepo, "data", kind, strings.ToLower(code)+".json")); err == nil && json.Unmarshal(b, &f) == nil {
		for _, s := range f.Scenarios {
			if s.Schema == "bill/invoice" {
				out = append(out, s.List...)
			}
		}
	}
	scenCache[k] = out
	return out
}

// docScenarios lists the published invoice scenarios of the document's regime and addons.
func docScenarios(doc *JV) []pubScenario {
	var out []pubScenario
	if r := doc.Get("$regime").Str(); r != "" {
		out = append(out, scenariosOf("regimes", r)...)
	}
	if al := doc.Get("$addons"); al != nil && al.K == 'a' {
		for _, a := range al.A {
			out = append(out, scenariosOf("addons", a.Str())...)
		}
	}
	return out
}

// applyScenario makes the invoice meet the conditions of published scenarios
// number i, j and k of its regime and addons (type, tags, and the extension
// value on a line's tax combo), as a user preparing such an invoice would.
func applyScenario(doc *JV, idx []int64) bool {
	if !strings.HasSuffix(doc.Get("$schema").Str(), "/bill/invoice") {
		return false
	}
	all := docScenarios(doc)
	if len(all) == 0 {
		return false
	}
	changed := false
	for n, i := range idx {
		if n > 0 && i%2 == 0 {
			continue // one scenario more often than several at once
		}
		sc := all[int(i)%len(all)]
		if len(sc.Types) > 0 {
			t := sc.Types[int(i/7)%len(sc.Types)]
			if doc.Get("type").Str() != t {
				doc.Set("type", JStr(t))
				changed = true
			}
			if t == "corrective" || t == "credit-note" || t == "debit-note" {
				if doc.Get("preceding") == nil {
					doc.Set("preceding", &JV{K: 'a', A: []*JV{{K: 'o', M: []JM{{"series", JStr("SIM")}, {"code", JStr("P-001")}, {"issue_date", JStr("2022-01-10")}, {"reason", JStr("simulated")}}}}})
				}
			}
		}
		if len(sc.Tags) > 0 {
			tags := doc.Get("$tags")
			if tags == nil || tags.K != 'a' {
				tags = &JV{K: 'a'}
				doc.Set("$tags", tags)
			}
			for _, t := range sc.Tags {
				have := false
				for _, e := range tags.A {
					if e.Str() == t {
						have = true
					}
				}
				if !have {
					tags.A = append(tags.A, JStr(t))
					changed = true
				}
			}
		}
		if sc.ExtKey != "" {
			lines := doc.Get("lines")
			if lines != nil && lines.K == 'a' && len(lines.A) > 0 {
				l := lines.A[n%len(lines.A)]
				if ts := l.Get("taxes"); ts != nil && ts.K == 'a' && len(ts.A) > 0 && ts.A[0].K == 'o' {
					c := ts.A[0]
					ext := c.Get("ext")
					if ext == nil || ext.K != 'o' {
						ext = &JV{K: 'o'}
						c.Set("ext", ext)
					}
					if ext.Get(sc.ExtKey).Str() != sc.ExtCode {
						ext.Set(sc.ExtKey, JStr(sc.ExtCode))
						changed = true
					}
				}
			}
		}
	}
	return changed
}
