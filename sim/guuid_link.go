package verifsim

import (
	_ "unsafe" // go:linkname

	_ "github.com/google/uuid"
)

// github.com/google/uuid keeps process-wide monotonic state for v7 (and v1/v6)
// identifiers. A simulated run must not depend on the runs executed before it in
// the same process, so the harness resets that state at the start of every run.
// The module cache cannot be overlaid, hence linkname.

//go:linkname guuidLastV7time github.com/google/uuid.lastV7time
var guuidLastV7time int64

//go:linkname guuidLasttime github.com/google/uuid.lasttime
var guuidLasttime uint64

//go:linkname guuidClockSeq github.com/google/uuid.clockSeq
var guuidClockSeq uint16

func resetGoogleUUID() {
	guuidLastV7time = 0
	guuidLasttime = 0
	guuidClockSeq = 0
}
