package verifsim

import (
	"bytes"
	"context"
	"errors"
	"io"
	"sync"
	"time"
)

// ErrInjected is the error returned by injected stream faults.
var ErrInjected = errors.New("verifsim: injected I/O error")

// SimReader is the simulated byte source: what a file, pipe, socket or request
// body looks like to gobl. All behaviour is decided by its fields (plan data).
type SimReader struct {
	Name        string
	Data        []byte
	Chunks      []int // cycle of maximum bytes per Read; empty or 0 = unlimited
	Zero        int   // every Zero-th call (Zero >= 2) returns (0, nil) instead of delivering; 0/1 = never
	ZeroFirst   bool  // the very first call returns (0, nil) as well
	EOFAt       int   // >=0: the stream ends cleanly after this many bytes (torn transfer)
	ErrAt       int   // >=0: Read fails once this many bytes were delivered
	Err         error // the error for ErrAt (default ErrInjected)
	ErrWithData bool  // deliver the final chunk together with the error (legal per io.Reader)
	EOFWithData bool  // deliver the last bytes together with io.EOF instead of a separate (0, EOF) read (legal per io.Reader)
	StallAt     int   // >=0: nothing more arrives once this many bytes were delivered, until Release
	X           *X

	// Gate, when set, is called at the start of every Read (scheduler worlds
	// park the calling goroutine here until a delivery action is granted).
	Gate func(r *SimReader)

	mu     sync.Mutex
	pos    int
	calls  int
	stall  chan struct{}
	fired  map[string]bool
	Closed bool
}

// NewSimReader returns a reader without faults.
func NewSimReader(x *X, name string, data []byte) *SimReader {
	return &SimReader{Name: name, Data: data, EOFAt: -1, ErrAt: -1, StallAt: -1, X: x}
}

func (r *SimReader) fault(kind string) {
	if r.X == nil {
		return
	}
	if r.fired == nil {
		r.fired = map[string]bool{}
	}
	if !r.fired[kind] {
		r.fired[kind] = true
		r.X.Fault(kind)
	}
}

// Pos returns the bytes delivered so far.
func (r *SimReader) Pos() int { r.mu.Lock(); defer r.mu.Unlock(); return r.pos }

// Release ends a stall.
func (r *SimReader) Release() {
	r.mu.Lock()
	defer r.mu.Unlock()
	if r.stall != nil {
		close(r.stall)
		r.stall = nil
	}
	r.StallAt = -1
}

// Close makes the stream end at the current position.
func (r *SimReader) Close() error {
	r.mu.Lock()
	r.Closed = true
	r.mu.Unlock()
	r.Release()
	return nil
}

func (r *SimReader) Read(p []byte) (int, error) {
	if r.Gate != nil {
		r.Gate(r)
	}
	r.mu.Lock()
	r.calls++
	if len(p) == 0 {
		r.mu.Unlock()
		return 0, nil
	}
	limit := len(r.Data)
	if r.EOFAt >= 0 && r.EOFAt < limit {
		limit = r.EOFAt
	}
	if r.Closed && r.pos < limit {
		limit = r.pos
	}
	if r.StallAt >= 0 && r.pos >= r.StallAt {
		if r.stall == nil {
			r.stall = make(chan struct{})
		}
		ch := r.stall
		r.fault("stall")
		r.mu.Unlock()
		<-ch
		r.mu.Lock()
	}
	if r.ErrAt >= 0 && r.pos >= r.ErrAt {
		r.fault("read-error")
		r.mu.Unlock()
		if r.Err != nil {
			return 0, r.Err
		}
		return 0, ErrInjected
	}
	if r.pos >= limit {
		if limit < len(r.Data) {
			r.fault("torn-eof")
		}
		r.mu.Unlock()
		return 0, io.EOF
	}
	if (r.Zero >= 2 && r.calls%r.Zero == 0) || (r.ZeroFirst && r.calls == 1) {
		r.fault("zero-read")
		r.mu.Unlock()
		return 0, nil
	}
	n := len(p)
	if len(r.Chunks) > 0 {
		c := r.Chunks[(r.calls-1)%len(r.Chunks)]
		if c > 0 && c < n {
			n = c
			r.fault("chunked")
		}
	}
	if r.pos+n > limit {
		n = limit - r.pos
	}
	if r.ErrAt >= 0 && r.pos+n > r.ErrAt {
		n = r.ErrAt - r.pos
	}
	if r.StallAt >= 0 && r.pos+n > r.StallAt {
		n = r.StallAt - r.pos
	}
	copy(p, r.Data[r.pos:r.pos+n])
	r.pos += n
	var err error
	if r.ErrWithData && r.ErrAt >= 0 && r.pos >= r.ErrAt {
		r.fault("read-error")
		err = r.Err
		if err == nil {
			err = ErrInjected
		}
	}
	if err == nil && r.EOFWithData && n > 0 && r.pos >= limit && limit == len(r.Data) {
		r.fault("eof-with-data")
		err = io.EOF
	}
	r.mu.Unlock()
	return n, err
}

// SimWriter is the simulated sink (stdout, response body, output file).
type SimWriter struct {
	Name    string
	Buf     bytes.Buffer
	ShortAt int // >=0: a Write crossing this offset is cut short there (n < len(p), err = io.ErrShortWrite)
	ErrAt   int // >=0: Writes fail once this many bytes were accepted (EPIPE / ENOSPC-like)
	X       *X
	Gate    func(w *SimWriter, p []byte)
	mu      sync.Mutex
	Writes  int
}

// NewSimWriter returns a writer without faults.
func NewSimWriter(x *X, name string) *SimWriter {
	return &SimWriter{Name: name, ShortAt: -1, ErrAt: -1, X: x}
}

func (w *SimWriter) Write(p []byte) (int, error) {
	if w.Gate != nil {
		w.Gate(w, p)
	}
	w.mu.Lock()
	defer w.mu.Unlock()
	w.Writes++
	if w.ErrAt >= 0 && w.Buf.Len() >= w.ErrAt {
		if w.X != nil {
			w.X.Fault("write-error")
		}
		return 0, ErrInjected
	}
	n := len(p)
	if w.ErrAt >= 0 && w.Buf.Len()+n > w.ErrAt {
		n = w.ErrAt - w.Buf.Len()
		w.Buf.Write(p[:n])
		if w.X != nil {
			w.X.Fault("write-error")
		}
		return n, ErrInjected
	}
	if w.ShortAt >= 0 && w.Buf.Len() < w.ShortAt && w.Buf.Len()+n > w.ShortAt {
		n = w.ShortAt - w.Buf.Len()
		w.Buf.Write(p[:n])
		w.ShortAt = -1
		if w.X != nil {
			w.X.Fault("short-write")
		}
		return n, io.ErrShortWrite
	}
	w.Buf.Write(p)
	return len(p), nil
}

// Bytes returns what was written.
func (w *SimWriter) Bytes() []byte {
	w.mu.Lock()
	defer w.mu.Unlock()
	return append([]byte(nil), w.Buf.Bytes()...)
}

// Header/WriteHeader make SimWriter usable as an http.ResponseWriter body.

// CancelAfter returns a context that is cancelled after d of (virtual) time, or
// already cancelled when d < 0, or never when d == 0.
func CancelAfter(parent context.Context, d time.Duration, x *X) (context.Context, context.CancelFunc) {
	ctx, cancel := context.WithCancel(parent)
	switch {
	case d < 0:
		if x != nil {
			x.Fault("cancel-before")
		}
		cancel()
	case d > 0:
		t := time.AfterFunc(d, func() {
			if x != nil {
				x.Fault("cancel-during")
			}
			cancel()
		})
		return ctx, func() { t.Stop(); cancel() }
	}
	return ctx, cancel
}
