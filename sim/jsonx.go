package verifsim

import (
	"bytes"
	"encoding/json"
	"fmt"
	"io"
	"math/rand/v2"
	"strconv"
	"strings"
	"unicode/utf8"
)

// JV is an order-preserving JSON value; numbers keep their text.
type JV struct {
	K byte // 'o' object, 'a' array, 's' string, 'n' number, 't' true, 'f' false, 'z' null
	S string
	M []JM
	A []*JV
}

// JM is an object member.
type JM struct {
	Key string
	V   *JV
}

// ParseJV parses exactly one JSON value (trailing whitespace allowed).
func ParseJV(b []byte) (*JV, error) {
	dec := json.NewDecoder(bytes.NewReader(b))
	dec.UseNumber()
	v, err := parseJV(dec)
	if err != nil {
		return nil, err
	}
	if _, err := dec.Token(); err != io.EOF {
		return nil, fmt.Errorf("trailing data")
	}
	return v, nil
}

func parseJV(dec *json.Decoder) (*JV, error) {
	t, err := dec.Token()
	if err != nil {
		if err == io.EOF {
			return nil, io.ErrUnexpectedEOF
		}
		return nil, err
	}
	switch x := t.(type) {
	case json.Delim:
		switch x {
		case '{':
			o := &JV{K: 'o'}
			for dec.More() {
				kt, err := dec.Token()
				if err != nil {
					return nil, err
				}
				k, ok := kt.(string)
				if !ok {
					return nil, fmt.Errorf("bad key")
				}
				v, err := parseJV(dec)
				if err != nil {
					return nil, err
				}
				o.M = append(o.M, JM{k, v})
			}
			if _, err := dec.Token(); err != nil {
				if err == io.EOF {
					return nil, io.ErrUnexpectedEOF
				}
				return nil, err
			}
			return o, nil
		case '[':
			a := &JV{K: 'a'}
			for dec.More() {
				v, err := parseJV(dec)
				if err != nil {
					return nil, err
				}
				a.A = append(a.A, v)
			}
			if _, err := dec.Token(); err != nil {
				if err == io.EOF {
					return nil, io.ErrUnexpectedEOF
				}
				return nil, err
			}
			return a, nil
		}
		return nil, fmt.Errorf("unexpected delimiter %v", x)
	case string:
		return &JV{K: 's', S: x}, nil
	case json.Number:
		return &JV{K: 'n', S: string(x)}, nil
	case bool:
		if x {
			return &JV{K: 't'}, nil
		}
		return &JV{K: 'f'}, nil
	case nil:
		return &JV{K: 'z'}, nil
	}
	return nil, fmt.Errorf("unexpected token %T", t)
}

// Clone deep-copies.
func (v *JV) Clone() *JV {
	if v == nil {
		return nil
	}
	c := &JV{K: v.K, S: v.S}
	if v.M != nil {
		c.M = make([]JM, len(v.M))
		for i, m := range v.M {
			c.M[i] = JM{m.Key, m.V.Clone()}
		}
	}
	if v.A != nil {
		c.A = make([]*JV, len(v.A))
		for i, e := range v.A {
			c.A[i] = e.Clone()
		}
	}
	return c
}

// Get returns the member value or nil.
func (v *JV) Get(key string) *JV {
	if v == nil || v.K != 'o' {
		return nil
	}
	for _, m := range v.M {
		if m.Key == key {
			return m.V
		}
	}
	return nil
}

// Set sets or appends a member.
func (v *JV) Set(key string, val *JV) {
	for i, m := range v.M {
		if m.Key == key {
			v.M[i].V = val
			return
		}
	}
	v.M = append(v.M, JM{key, val})
}

// Del removes a member; reports whether it existed.
func (v *JV) Del(key string) bool {
	for i, m := range v.M {
		if m.Key == key {
			v.M = append(v.M[:i:i], v.M[i+1:]...)
			return true
		}
	}
	return false
}

// Str returns the string value of a string node ("" otherwise).
func (v *JV) Str() string {
	if v == nil || v.K != 's' {
		return ""
	}
	return v.S
}

// JStr makes a string node.
func JStr(s string) *JV { return &JV{K: 's', S: s} }

// Equal compares logical content: object member order is irrelevant, numbers
// compare as text.
func (v *JV) Equal(w *JV) bool {
	if v == nil || w == nil {
		return v == w
	}
	if v.K != w.K {
		return false
	}
	switch v.K {
	case 's', 'n':
		return v.S == w.S
	case 'a':
		if len(v.A) != len(w.A) {
			return false
		}
		for i := range v.A {
			if !v.A[i].Equal(w.A[i]) {
				return false
			}
		}
	case 'o':
		if len(v.M) != len(w.M) {
			return false
		}
		for _, m := range v.M {
			o := w.Get(m.Key)
			if o == nil || !m.V.Equal(o) {
				return false
			}
		}
	}
	return true
}

// EncStyle controls how a value is written. The zero value is compact,
// order-preserving, Go-style escaping.
type EncStyle struct {
	R        *rand.Rand // when set: shuffle members, random whitespace, random escape style
	Shuffle  bool
	Space    bool
	Escapes  bool
	Indent   string
	AddNulls bool // add members with null values (content-preserving for c14n only)
}

// Encode writes the value.
func (v *JV) Encode(st *EncStyle) []byte {
	var b bytes.Buffer
	if st == nil {
		st = &EncStyle{}
	}
	v.enc(&b, st, 0)
	return b.Bytes()
}

func (st *EncStyle) ws(b *bytes.Buffer) {
	if st.Space && st.R != nil {
		switch st.R.IntN(6) {
		case 0:
			b.WriteByte(' ')
		case 1:
			b.WriteString("\n\t")
		case 2:
			b.WriteString("\r\n  ")
		}
	}
}

func (v *JV) enc(b *bytes.Buffer, st *EncStyle, depth int) {
	switch v.K {
	case 'o':
		ms := v.M
		if st.Shuffle && st.R != nil && len(ms) > 1 {
			ms = append([]JM{}, ms...)
			st.R.Shuffle(len(ms), func(i, j int) { ms[i], ms[j] = ms[j], ms[i] })
		}
		b.WriteByte('{')
		n := 0
		for i, m := range ms {
			if st.AddNulls && st.R != nil && st.R.IntN(4) == 0 {
				if n > 0 {
					b.WriteByte(',')
				}
				st.ws(b)
				name := fmt.Sprintf("zz_null_%d_%d", depth, i)
				if st.R.IntN(2) == 0 {
					name = "!" + name // sorts before every other member
				}
				writeJSONString(b, name, st)
				b.WriteString(":null")
				n++
			}
			if n > 0 {
				b.WriteByte(',')
			}
			n++
			st.ws(b)
			if st.Indent != "" {
				b.WriteByte('\n')
				b.WriteString(strings.Repeat(st.Indent, depth+1))
			}
			writeJSONString(b, m.Key, st)
			st.ws(b)
			b.WriteByte(':')
			if st.Indent != "" {
				b.WriteByte(' ')
			}
			st.ws(b)
			m.V.enc(b, st, depth+1)
			st.ws(b)
		}
		if st.Indent != "" && len(ms) > 0 {
			b.WriteByte('\n')
			b.WriteString(strings.Repeat(st.Indent, depth))
		}
		b.WriteByte('}')
	case 'a':
		b.WriteByte('[')
		for i, e := range v.A {
			if i > 0 {
				b.WriteByte(',')
			}
			st.ws(b)
			if st.Indent != "" {
				b.WriteByte('\n')
				b.WriteString(strings.Repeat(st.Indent, depth+1))
			}
			e.enc(b, st, depth+1)
			st.ws(b)
		}
		if st.Indent != "" && len(v.A) > 0 {
			b.WriteByte('\n')
			b.WriteString(strings.Repeat(st.Indent, depth))
		}
		b.WriteByte(']')
	case 's':
		writeJSONString(b, v.S, st)
	case 'n':
		b.WriteString(v.S)
	case 't':
		b.WriteString("true")
	case 'f':
		b.WriteString("false")
	default:
		b.WriteString("null")
	}
}

const hexd = "0123456789abcdef"

// writeJSONString writes a JSON string literal. With Escapes, characters are
// escaped in a randomly chosen but equivalent style (\uXXXX for anything,
// surrogate pairs above the BMP, "\/" for '/').
func writeJSONString(b *bytes.Buffer, s string, st *EncStyle) {
	b.WriteByte('"')
	for _, r := range s {
		if r == utf8.RuneError {
			// keep invalid bytes out: Go's decoder already replaced them
			b.WriteString(`�`)
			continue
		}
		style := 0
		if st != nil && st.Escapes && st.R != nil {
			style = st.R.IntN(5)
		}
		switch {
		case r == '"':
			if style == 1 {
				b.WriteString("\\u0022")
			} else {
				b.WriteString(`\"`)
			}
		case r == '\\':
			if style == 1 {
				b.WriteString("\\u005c")
			} else {
				b.WriteString("\\\\")
			}
		case r == '\n' && style != 1:
			b.WriteString(`\n`)
		case r == '\r' && style != 1:
			b.WriteString(`\r`)
		case r == '\t' && style != 1:
			b.WriteString(`\t`)
		case r < 0x20:
			fmt.Fprintf(b, `\u%04x`, r)
		case r == '/' && style == 2:
			b.WriteString(`\/`)
		case style == 1 || (style == 3 && r > 0x7e):
			if r >= 0x10000 {
				r1, r2 := utf16pair(r)
				fmt.Fprintf(b, `\u%04x\u%04X`, r1, r2)
			} else {
				if style == 3 {
					fmt.Fprintf(b, `\u%04X`, r)
				} else {
					fmt.Fprintf(b, `\u%04x`, r)
				}
			}
		case r == 0x2028 || r == 0x2029:
			fmt.Fprintf(b, `\u%04x`, r)
		default:
			b.WriteRune(r)
		}
	}
	b.WriteByte('"')
}

func utf16pair(r rune) (rune, rune) {
	r -= 0x10000
	return 0xd800 + (r>>10)&0x3ff, 0xdc00 + r&0x3ff
}

// Node is a value together with its JSON pointer and parent link.
type Node struct {
	Ptr    string
	V      *JV
	Parent *JV
	Key    string // member key when the parent is an object
	Idx    int    // index when the parent is an array
}

// Walk lists all nodes below (and including) v in document order.
func Walk(v *JV, ptr string) []Node {
	var out []Node
	var rec func(v, parent *JV, ptr, key string, idx int)
	rec = func(v, parent *JV, ptr, key string, idx int) {
		out = append(out, Node{ptr, v, parent, key, idx})
		switch v.K {
		case 'o':
			for _, m := range v.M {
				rec(m.V, v, ptr+"/"+escPtr(m.Key), m.Key, -1)
			}
		case 'a':
			for i, e := range v.A {
				rec(e, v, ptr+"/"+strconv.Itoa(i), "", i)
			}
		}
	}
	rec(v, nil, ptr, "", -1)
	return out
}

func escPtr(s string) string {
	return strings.ReplaceAll(strings.ReplaceAll(s, "~", "~0"), "/", "~1")
}

// At resolves a pointer produced by Walk.
func At(root *JV, ptr string) (v, parent *JV, key string, idx int) {
	v = root
	idx = -1
	if ptr == "" {
		return
	}
	for _, tok := range strings.Split(ptr[1:], "/") {
		tok = strings.ReplaceAll(strings.ReplaceAll(tok, "~1", "/"), "~0", "~")
		if v == nil {
			return nil, nil, "", -1
		}
		parent = v
		switch v.K {
		case 'o':
			key, idx = tok, -1
			v = v.Get(tok)
		case 'a':
			n, err := strconv.Atoi(tok)
			if err != nil || n < 0 || n >= len(v.A) {
				return nil, nil, "", -1
			}
			key, idx = "", n
			v = v.A[n]
		default:
			return nil, nil, "", -1
		}
	}
	return
}

// GenericPtr replaces array indices by "*" so that pointers can be grouped.
func GenericPtr(p string) string {
	parts := strings.Split(p, "/")
	for i, s := range parts {
		if _, err := strconv.Atoi(s); err == nil {
			parts[i] = "*"
		}
	}
	return strings.Join(parts, "/")
}
