package verifsim

import (
	"bytes"
	"context"
	"encoding/json"
	"fmt"
	"os"
	"path/filepath"
	"reflect"
	"sort"
	"strings"
	"sync"
	"time"

	"github.com/invopop/gobl"
	"github.com/invopop/gobl/bill"
	"github.com/invopop/gobl/cal"
	"github.com/invopop/gobl/cbc"
	"github.com/invopop/gobl/head"
	"github.com/invopop/gobl/internal/cli"
	"github.com/invopop/gobl/num"
	"github.com/invopop/gobl/schema"
	"github.com/invopop/gobl/tax"
)

// C16 — correct/replicate yield a linked new document and leave the source intact.
// World: W-LIFE with clock (today), entropy (new identifiers) and a source slot that
// may be signed, stamped and restored from durable bytes before the operation; the
// result is mutated afterwards and the source re-checked (aliasing only shows
// along a history).

var c16types = []string{"standard", "proforma", "corrective", "credit-note", "debit-note", "other"}

// pubCorrection is the correction definition as published under data/.
type pubCorrection struct {
	Types          []string `json:"types"`
	Extensions     []string `json:"extensions"`
	ReasonRequired bool     `json:"reason_required"`
	Stamps         []string `json:"stamps"`
	CopyTax        bool     `json:"copy_tax"`
	Schema         string   `json:"schema"`
}

var (
	pubMu   sync.Mutex
	pubDefs = map[string]*pubFile{}
)

type pubFile struct {
	Corrections []pubCorrection `json:"corrections"`
	Extensions  []struct {
		Key    string `json:"key"`
		Values []struct {
			Code string `json:"code"`
		} `json:"values"`
	} `json:"extensions"`
	TimeZone string `json:"time_zone"`
}

func loadPub(repo, kind, code string) *pubFile {
	pubMu.Lock()
	defer pubMu.Unlock()
	k := kind + "/" + strings.ToLower(code)
	if f, ok := pubDefs[k]; ok {
		return f
	}
	f := &pubFile{}
	b, err := os.ReadFile(filepath.Join(repo, "data", kind, strings.ToLower(code)+".json"))
	if err == nil {
		json.Unmarshal(b, f)
	}
	pubDefs[k] = f
	return f
}

// mergedCorrection merges regime and addon definitions for bill/invoice.
func mergedCorrection(repo string, regime string, addons []string) (pubCorrection, map[string]string) {
	var m pubCorrection
	extVals := map[string]string{}
	files := []*pubFile{loadPub(repo, "regimes", regime)}
	for _, a := range addons {
		files = append(files, loadPub(repo, "addons", a))
	}
	for _, f := range files {
		for _, c := range f.Corrections {
			if !strings.HasSuffix("bill/invoice", c.Schema) {
				continue
			}
			m.Types = append(m.Types, c.Types...)
			m.Extensions = append(m.Extensions, c.Extensions...)
			m.Stamps = append(m.Stamps, c.Stamps...)
			m.ReasonRequired = m.ReasonRequired || c.ReasonRequired
			m.CopyTax = m.CopyTax || c.CopyTax
		}
		for _, e := range f.Extensions {
			if len(e.Values) > 0 {
				extVals[e.Key] = e.Values[0].Code
			}
		}
	}
	return m, extVals
}

func init() {
	register(&PropDef{
		ID:    "C16",
		Level: "exploration",
		Rule: "for every corpus invoice (also with addons removed, replaced or combined, and with a value date): the source envelope is optionally stamped with the stamps its regime requires, signed and crash-restarted; the clock is placed at a seeded instant (including 23:59:59 / 00:00:00 UTC and the regime's zone around a day change); then it is corrected (every invoice type × option subsets: reason, extensions, stamps via header or options, series, issue date, copy-tax; Go options and raw JSON) or replicated through library, cli function, bulk action and cobra command at the same simulated instant; the library result is then mutated in place (lines, parties, preceding stamps, header stamps, recalculation, signing) and the source re-checked after each mutation, and vice versa; " +
			"a case is (document, operation, type, option set, entry point) and is non-trivial when the operation succeeded or was refused for a modelled reason",
		Assumptions: []string{
			"refusal is predicted from the published data/regimes/*.json and data/addons/*.json correction definitions (types, reason_required, stamps); when no type list is published no refusal is predicted",
			"'today' is accepted as either the UTC date or the regime-local date of the simulated instant (the statement names no zone)",
			"sources without a code are skipped (the library refuses them; the statement is silent)",
		},
		RequiredProbes: []string{"corrected-signed-stamped-source", "refused-type-not-allowed", "refused-missing-stamp", "refused-missing-reason", "result-mutated-source-checked", "replicated-near-midnight", "entry-points-agree"},
		Checks: []*CheckDef{{
			Name:   "ops",
			Bubble: true,
			NumRuns: func(c *Ctx) int64 {
				n := int64(len(c.Corpus.Invoices))
				if c.Tier == "thorough" {
					return n * 260
				}
				return n * 30
			},
			Plan: planC16,
			Exec: execC16,
		}},
	})
}

func planC16(c *Ctx, run int64) *Plan {
	docs := c.Corpus.Invoices
	d := docs[int(run)%len(docs)]
	r := RNG(c.Seed, run, 16)
	p := &Plan{Prop: "C16", Check: "ops", Seed: c.Seed, Run: run, Str: map[string]string{"doc": d.Name}, Knobs: map[string]int64{}}
	id := 0
	mk := func(o Op) { id++; o.ID = id; p.Ops = append(p.Ops, o) }
	// clock: a day in 2023-2025, at an interesting second
	day := int64(19358 + r.IntN(1000)) // days since epoch: 2023-01-01 ..
	sec := Pick(r, []int64{0, 1, 3600 * 12, 86399, 86398, 22*3600 + 1800, 23*3600 + 1800, 1800, 3*3600 + 1, 21*3600 + 59*60 + 59})
	mk(Op{K: "clock", I: day*86400 + sec})
	// every regime × addon pairing: the same invoice without its addons, with another addon, or with
	// several addons of its regime at once (their correction definitions then apply together)
	addons := d.Addons
	setAddons := false
	if Chance(r, 0.3) {
		setAddons = true
		var same []string
		for _, a := range allAddons(c.Repo) {
			if pre := strings.SplitN(a, "-", 2)[0]; strings.EqualFold(pre, d.Regime) || pre == "eu" {
				same = append(same, a)
			}
		}
		switch v := r.IntN(10); {
		case v < 4:
			addons = nil
		case v < 6 || len(same) == 0:
			addons = []string{Pick(r, allAddons(c.Repo))}
		case v < 8:
			addons = append(append([]string{}, d.Addons...), Pick(r, same))
		default:
			addons = []string{Pick(r, same), Pick(r, same)}
		}
		addons = uniqStrings(addons)
	}
	def, extVals := mergedCorrection(c.Repo, d.Regime, addons)
	stampMode := r.IntN(4) // 0 none, 1 header, 2 options, 3 header (signed)
	if len(def.Stamps) == 0 && stampMode != 0 && Chance(r, 0.5) {
		// an unrelated stamp on the source header
		mk(Op{K: "stamp", S: "sim-prv-a", S2: "s1"})
	}
	if stampMode == 1 || stampMode == 3 {
		for _, s := range def.Stamps {
			mk(Op{K: "stamp", S: s, S2: "value-of-" + s})
		}
		if len(def.Stamps) > 0 && Chance(r, 0.5) {
			// what a really stamped document looks like: further stamps besides the required one
			mk(Op{K: "stamp", S: "sim-prv-a", S2: "s1"})
			mk(Op{K: "stamp", S: "sim-prv-b", S2: "s2"})
		}
	}
	if Chance(r, 0.2) {
		// a source produced elsewhere: valid, digest matching, but not in this library's normal form
		mk(Op{K: "denorm"})
	}
	if setAddons {
		mk(Op{K: "setaddons", S: strings.Join(addons, ",")})
	}
	if Chance(r, 0.25) {
		// a source whose tax date is not its issue date
		mk(Op{K: "valuedate", I: int64(3 + r.IntN(40))})
	}
	signed := stampMode == 3 || Chance(r, 0.4)
	if signed {
		mk(Op{K: "sign", I: int64(r.IntN(3))})
	}
	if Chance(r, 0.4) {
		mk(Op{K: Pick(r, []string{"crash", "reencode"}), I: int64(r.Uint32())})
	}
	if Chance(r, 0.3) {
		mk(Op{K: "replicate"})
	} else {
		op := Op{K: "correct"}
		// type: allowed ones more often, but every type appears
		if len(def.Types) > 0 && Chance(r, 0.65) {
			op.S = Pick(r, def.Types)
		} else {
			op.S = Pick(r, c16types)
		}
		if Chance(r, 0.75) || def.ReasonRequired && Chance(r, 0.5) {
			op.S2 = Pick(r, []string{"wrong amount", "customer changed", "Devolución parcial"})
			op.L = append(op.L, "reason")
		}
		if len(def.Extensions) > 0 && Chance(r, 0.7) {
			op.L = append(op.L, "ext")
			for _, e := range def.Extensions {
				if v, ok := extVals[e]; ok {
					op.L = append(op.L, "ext="+e+"="+v)
				}
			}
		}
		if stampMode == 2 || (stampMode != 0 && Chance(r, 0.3)) {
			// stamps passed as options — also on a source whose header already carries them
			op.L = append(op.L, "stamps")
			for _, s := range def.Stamps {
				op.L = append(op.L, "stamp="+s+"=opt-value-of-"+s)
			}
		}
		if Chance(r, 0.12) {
			// a stamp list with a hole in it
			op.L = append(op.L, "nullstamp")
		}
		if Chance(r, 0.3) {
			op.L = append(op.L, "series=CORR")
		}
		if Chance(r, 0.3) {
			op.L = append(op.L, "date=2024-02-29")
		}
		if Chance(r, 0.3) {
			op.L = append(op.L, "copytax")
		}
		op.B = Chance(r, 0.5) // raw JSON data instead of Go options
		mk(op)
	}
	muts := []string{"editline", "editparty", "prestamp", "headstamp", "recalc", "sign", "editsource", "notes", "pokeall", "pokeall"}
	for i, n := 0, 1+r.IntN(5); i < n; i++ {
		mk(Op{K: "mut", S: Pick(r, muts), I: int64(r.IntN(4))})
	}
	if Chance(r, 0.3) {
		mk(Op{K: "mut", S: "pokesource"}) // last: the source is unusable afterwards
	}
	return p
}

type c16opts struct {
	typ       string
	reason    string
	ext       map[string]string
	stamps    [][2]string
	series    string
	date      string
	copyTax   bool
	raw       bool
	nullStamp bool
}

func c16parseOpts(op Op) *c16opts {
	o := &c16opts{typ: op.S, raw: op.B, ext: map[string]string{}}
	for _, f := range op.L {
		switch {
		case f == "reason":
			o.reason = op.S2
		case strings.HasPrefix(f, "ext="):
			p := strings.SplitN(f, "=", 3)
			o.ext[p[1]] = p[2]
		case strings.HasPrefix(f, "stamp="):
			p := strings.SplitN(f, "=", 3)
			o.stamps = append(o.stamps, [2]string{p[1], p[2]})
		case strings.HasPrefix(f, "series="):
			o.series = f[7:]
		case strings.HasPrefix(f, "date="):
			o.date = f[5:]
		case f == "copytax":
			o.copyTax = true
		case f == "nullstamp":
			o.nullStamp = true
		}
	}
	return o
}

func (o *c16opts) onlyType() bool {
	return o.reason == "" && len(o.ext) == 0 && len(o.stamps) == 0 && !o.nullStamp && o.series == "" && o.date == "" && !o.copyTax
}

func (o *c16opts) jsonData() []byte {
	m := map[string]any{"type": o.typ}
	if o.reason != "" {
		m["reason"] = o.reason
	}
	if len(o.ext) > 0 {
		m["ext"] = o.ext
	}
	if len(o.stamps) > 0 || o.nullStamp {
		var ss []any
		if o.nullStamp {
			ss = append(ss, nil)
		}
		for _, s := range o.stamps {
			ss = append(ss, map[string]string{"prv": s[0], "val": s[1]})
		}
		m["stamps"] = ss
	}
	if o.series != "" {
		m["series"] = o.series
	}
	if o.date != "" {
		m["issue_date"] = o.date
	}
	if o.copyTax {
		m["copy_tax"] = true
	}
	b, _ := json.Marshal(m)
	return b
}

func (o *c16opts) goOptions() []schema.Option {
	var out []schema.Option
	out = append(out, bill.WithOptions(&bill.CorrectionOptions{Type: cbc.Key(o.typ)}))
	if o.reason != "" {
		out = append(out, bill.WithReason(o.reason))
	}
	for _, k := range SortedKeys(o.ext) {
		out = append(out, bill.WithExtension(cbc.Key(k), cbc.Code(o.ext[k])))
	}
	if len(o.stamps) > 0 || o.nullStamp {
		var ss []*head.Stamp
		if o.nullStamp {
			ss = append(ss, nil)
		}
		for _, s := range o.stamps {
			ss = append(ss, &head.Stamp{Provider: cbc.Key(s[0]), Value: s[1]})
		}
		out = append(out, bill.WithStamps(ss))
	}
	if o.series != "" {
		out = append(out, bill.WithSeries(cbc.Code(o.series)))
	}
	if o.date != "" {
		if d, err := parseDate(o.date); err == nil {
			out = append(out, bill.WithIssueDate(d))
		}
	}
	if o.copyTax {
		out = append(out, bill.WithCopyTax())
	}
	return out
}

func parseDate(s string) (cal.Date, error) {
	var d cal.Date
	err := json.Unmarshal([]byte(`"`+s+`"`), &d)
	return d, err
}

// normaliseResult strips what each process/run generates by itself.
func normaliseResult(b []byte) string {
	v, err := ParseJV(b)
	if err != nil {
		return "unparseable: " + string(b)
	}
	if h := v.Get("head"); h != nil {
		h.Del("uuid")
		h.Del("dig")
	}
	if d := v.Get("doc"); d != nil {
		d.Del("uuid")
	}
	return string(v.Encode(nil))
}

func execC16(x *X) {
	d := x.C.Corpus.Get(x.P.Str["doc"])
	if d == nil {
		x.R.Infra = "corpus document missing"
		return
	}
	src, err := ParseEnv(d.Env)
	if err != nil {
		x.R.Infra = err.Error()
		return
	}
	srcTree, _ := ParseJV(d.Env)
	if srcTree.Get("doc").Get("code").Str() == "" {
		x.Probe("source-without-code-skipped")
		return
	}
	def, _ := mergedCorrection(x.C.Repo, d.Regime, d.Addons)
	tz := loadPub(x.C.Repo, "regimes", d.Regime).TimeZone
	loc, lerr := time.LoadLocation(tz)
	if lerr != nil {
		loc = time.UTC
	}
	t0 := time.Now()
	var res *gobl.Envelope // library result
	var resBytes []byte
	hist := []string{}
	srcSnap := func() []byte { return Marshal(src) }
	signedStamped := false
	for i, op := range x.P.Ops {
		x.Entropy(op.ID)
		k := op.K
		if op.S != "" {
			k += ":" + op.S
		}
		if len(op.L) > 0 {
			k += "[" + strings.Join(op.L, ",") + "]"
		}
		hist = append(hist, k)
		H0 := strings.Join(hist, " → ")
		switch op.K {
		case "clock":
			target := time.Unix(op.I, 0)
			if dlt := target.Sub(time.Now()); dlt > 0 {
				time.Sleep(dlt)
			}
		case "stamp":
			src.Head.AddStamp(&head.Stamp{Provider: cbc.Key(op.S), Value: op.S2})
		case "setaddons":
			b := Marshal(src)
			v, err := ParseJV(b)
			if err != nil {
				break
			}
			if op.S == "" {
				v.Get("doc").Del("$addons")
			} else {
				arr := &JV{K: 'a'}
				for _, a := range strings.Split(op.S, ",") {
					arr.A = append(arr.A, JStr(a))
				}
				v.Get("doc").Set("$addons", arr)
			}
			e2, err := ParseEnv(v.Encode(nil))
			if err != nil {
				break
			}
			if safely(func() { err = e2.Calculate() }) != "" || err != nil {
				break
			}
			if srcT, err := ParseJV(Marshal(e2)); err == nil && srcT.Get("doc").Get("code").Str() != "" {
				src, srcTree = e2, srcT
				d = &Doc{Name: d.Name, Regime: d.Regime, Kind: d.Kind, Env: Marshal(e2)}
				d.Addons = nil
				if op.S != "" {
					// what the calculated source says it uses (an addon may pull in others)
					d.Addons = nil
					if al := srcT.Get("doc").Get("$addons"); al != nil {
						for _, a := range al.A {
							d.Addons = append(d.Addons, a.Str())
						}
					}
					if len(d.Addons) > 1 {
						x.Probe("source-with-several-addons")
					}
				}
				def, _ = mergedCorrection(x.C.Repo, d.Regime, d.Addons)
				x.Probe("source-with-replaced-addons")
			}
		case "valuedate":
			b := Marshal(src)
			v, err := ParseJV(b)
			if err != nil || v.Get("doc").Get("issue_date").Str() == "" {
				break
			}
			v.Get("doc").Set("value_date", JStr(dateAdd(v.Get("doc").Get("issue_date").Str(), -int(op.I))))
			e2, err := ParseEnv(v.Encode(nil))
			if err != nil {
				break
			}
			if safely(func() { err = e2.Calculate() }) != "" || err != nil || e2.Validate() != nil {
				break
			}
			if srcT, err := ParseJV(Marshal(e2)); err == nil && srcT.Get("doc").Get("code").Str() != "" {
				src, srcTree = e2, srcT
				x.Probe("source-with-value-date")
			}
		case "denorm":
			// rewrite percentages "21.0%" as "21%" (same value, other precision) and recompute the
			// digest WITHOUT calculating: what another implementation or an older release stores
			b := Marshal(src)
			v, err := ParseJV(b)
			if err != nil {
				break
			}
			n := 0
			for _, nd := range Walk(v.Get("doc"), "/doc") {
				if nd.V.K == 's' && strings.HasSuffix(nd.V.S, ".0%") && nd.Key == "percent" {
					nd.V.S = strings.TrimSuffix(nd.V.S, ".0%") + "%"
					n++
				}
			}
			if n == 0 {
				break
			}
			e2, err := ParseEnv(v.Encode(nil))
			if err != nil {
				break
			}
			if dg, err := e2.Digest(); err == nil {
				e2.Head.Digest = dg
				if e2.Validate() == nil {
					src = e2
					srcTree, _ = ParseJV(Marshal(src))
					x.Probe("source-not-in-normal-form")
				}
			}
		case "sign":
			if err := src.Sign(PrivKey(int(op.I))); err == nil && len(src.Head.Stamps) > 0 {
				signedStamped = true
			}
		case "crash", "reencode":
			b := Marshal(src)
			if op.K == "reencode" {
				b, _ = Reencode(b, op.I, false)
				x.Fault("re-encode")
			} else {
				x.Fault("restart")
			}
			e2, err := ParseEnv(b)
			if err != nil {
				x.Violate("restore:parse", "stored source does not parse: %v", err)
				return
			}
			src = e2
		case "correct":
			o := c16parseOpts(op)
			before := srcSnap()
			now := time.Now()
			// availability of required stamps
			avail := map[string]string{}
			for _, s := range src.Head.Stamps {
				avail[s.Provider.String()] = s.Value
			}
			for _, s := range o.stamps {
				if _, ok := avail[s[0]]; !ok || o.raw || true {
					// option stamps are listed before header stamps by the implementation; either value is accepted
					if _, ok := avail[s[0]]; !ok {
						avail[s[0]] = s[1]
					}
				}
			}
			refuse := ""
			if len(def.Types) > 0 && !contains(def.Types, o.typ) {
				refuse = "type-not-allowed"
			}
			if def.ReasonRequired && o.reason == "" {
				refuse = "missing-reason"
			}
			for _, s := range def.Stamps {
				if _, ok := avail[s]; !ok {
					refuse = "missing-stamp"
				}
			}
			// --- library
			var opts []schema.Option
			if o.raw {
				opts = []schema.Option{bill.WithData(o.jsonData())}
			} else {
				opts = o.goOptions()
			}
			var lerr error
			var lres *gobl.Envelope
			if p := safely(func() { lres, lerr = src.Correct(opts...) }); p != "" {
				x.Violate("correct:panic", "Envelope.Correct panicked: %s\n  history: %s", p, H0)
				return
			}
			after := srcSnap()
			caseID := fmt.Sprintf("%s|correct|%s|%s|raw=%v", d.Name, o.typ, strings.Join(op.L, ","), o.raw)
			x.Case(caseID + "|lib")
			if !bytes.Equal(before, after) {
				x.Violate("source-changed:correct:"+GDiff(before, after), "correcting changed the source envelope; %s\n  history: %s", DiffDetail(before, after), H0)
				return
			}
			if o.nullStamp {
				// A stamp list with a hole in it is not a well-formed request: whether it is refused
				// or the hole ignored is not asserted (raw option data replaces the list, Go options
				// add to it). What is: nothing panics on any path and the source is untouched.
				x.Probe("stamp-option-list-with-null-entry")
				data, optData := Marshal(src), o.jsonData()
				for _, ep := range []string{epCLI, epBulk} {
					ep := ep
					if p := safely(func() {
						if ep == epCLI {
							_, _ = cli.Correct(context.Background(), &cli.CorrectOptions{ParseOptions: &cli.ParseOptions{Input: chunkedReader(x, "in", data, 0)}, Data: optData})
						} else {
							_, _ = bulkOne(x, map[string]any{"action": "correct", "req_id": "r", "payload": map[string]any{"data": data, "options": optData}}, 0, nil)
						}
					}); p != "" {
						x.Violate("correct:panic:"+ep, "entry point %s panicked on a stamp option list with a null entry: %s\n  history: %s", ep, p, H0)
						return
					}
				}
				x.Step(i, "slot", op.K, "nullstamp|"+errKey(lerr))
				continue
			}
			if refuse != "" {
				x.Probe("refused-" + refuse)
				x.R.Nontrivial = true
				if lerr == nil {
					x.Violate("not-refused:"+refuse, "correction of %s (regime %s addons %v) with type %q was accepted although the published definitions require refusal (%s): types=%v reason_required=%v stamps=%v\n  history: %s", d.Name, d.Regime, d.Addons, o.typ, refuse, def.Types, def.ReasonRequired, def.Stamps, H0)
					return
				}
			} else if lerr != nil {
				x.Violate("refused-unexpectedly:"+firstWords(lerr.Error(), 4), "correction of %s with type %q and options %v was refused although the published definitions allow it: %v\n  history: %s", d.Name, o.typ, op.L, lerr, H0)
				return
			}
			if lerr == nil && !o.raw && len(o.stamps) == 0 && !o.nullStamp {
				// A caller that keeps its options in one bill.CorrectionOptions value and uses it
				// again: the value must come back unchanged, and the same request must give the
				// same correction the second time.
				co := &bill.CorrectionOptions{Type: cbc.Key(o.typ), Reason: o.reason, Series: cbc.Code(o.series), CopyTax: o.copyTax}
				if len(o.ext) > 0 {
					co.Ext = tax.Extensions{}
					for _, k := range SortedKeys(o.ext) {
						co.Ext[cbc.Key(k)] = cbc.Code(o.ext[k])
					}
				}
				if o.date != "" {
					if dt, err := parseDate(o.date); err == nil {
						co.IssueDate = &dt
					}
				}
				optsBefore := Marshal(co)
				var r1, r2 *gobl.Envelope
				var e1, e2 error
				if p := safely(func() {
					x.Entropy(op.ID)
					r1, e1 = src.Correct(bill.WithOptions(co))
					x.Entropy(op.ID)
					r2, e2 = src.Correct(bill.WithOptions(co))
				}); p == "" {
					x.Probe("options-value-used-twice")
					if after := Marshal(co); !bytes.Equal(optsBefore, after) {
						x.Violate("options-changed:"+GDiff(optsBefore, after), "Envelope.Correct changed the caller's CorrectionOptions value; %s\n  history: %s", DiffDetail(optsBefore, after), H0)
					}
					if (e1 == nil) != (e2 == nil) {
						x.Violate("same-options-twice:verdict", "the same correction requested twice with one options value: first %v, then %v\n  history: %s", e1, e2, H0)
					} else if e1 == nil {
						if a, b := normaliseResult(Marshal(r1)), normaliseResult(Marshal(r2)); a != b {
							x.Violate("same-options-twice:"+GDiff([]byte(a), []byte(b)), "the same correction requested twice with one options value gives different documents; %s\n  history: %s", DiffDetail([]byte(a), []byte(b)), H0)
						}
					}
				}
			}
			if lerr == nil {
				x.R.Nontrivial = true
				if signedStamped {
					x.Probe("corrected-signed-stamped-source")
				}
				res, resBytes = lres, Marshal(lres)
				c16checkCorrection(x, d, srcTree, src, lres, o, def, avail, now, loc, H0)
			}
			// --- other entry points at the same instant
			c16agree(x, "correct", src, o, lres, lerr, H0, caseID)
			if x.P.Run%3 == 0 {
				c16bare(x, "correct", src, o, H0, caseID)
			}
		case "replicate":
			before := srcSnap()
			now := time.Now()
			var lerr error
			var lres *gobl.Envelope
			if p := safely(func() { lres, lerr = src.Replicate() }); p != "" {
				x.Violate("replicate:panic", "Envelope.Replicate panicked: %s", p)
				return
			}
			after := srcSnap()
			caseID := fmt.Sprintf("%s|replicate", d.Name)
			x.Case(caseID + "|lib")
			if !bytes.Equal(before, after) {
				x.Violate("source-changed:replicate:"+GDiff(before, after), "replicating changed the source envelope; %s\n  history: %s", DiffDetail(before, after), H0)
				return
			}
			if lerr != nil {
				// replication recalculates with today's date; a failure is only legitimate if calculation at this date fails
				x.Probe("replicate-error")
				x.Step(i, "slot", "replicate", "err:"+errKey(lerr))
				c16agree(x, "replicate", src, nil, nil, lerr, H0, caseID)
				continue
			}
			x.R.Nontrivial = true
			res, resBytes = lres, Marshal(lres)
			c16checkReplica(x, d, srcTree, src, lres, now, loc, H0)
			c16agree(x, "replicate", src, nil, lres, lerr, H0, caseID)
			if x.P.Run%3 == 0 {
				c16bare(x, "replicate", src, nil, H0, caseID)
			}
		case "mut":
			if res == nil {
				continue
			}
			sb := srcSnap()
			rb := Marshal(res)
			what := ""
			if p := safely(func() { what = c16mutate(x, op, src, res) }); p != "" {
				// a panic while operating on a deliberately mangled object is not this property's concern
				x.Probe("panic-after-mutation")
				continue
			}
			if what == "" {
				continue
			}
			x.Probe("result-mutated-source-checked")
			if op.S == "editsource" || op.S == "pokesource" {
				if got := Marshal(res); !bytes.Equal(rb, got) {
					x.Violate("result-changed-by-source-mutation:"+GDiff(rb, got), "mutating the source (%s) changed the previously returned result; %s\n  history: %s", what, DiffDetail(rb, got), H0)
					return
				}
			} else {
				if got := srcSnap(); !bytes.Equal(sb, got) {
					x.Violate("source-changed-by-result-mutation:"+op.S+":"+GDiff(sb, got), "mutating the result (%s) changed the source envelope: they share memory; %s\n  history: %s", what, DiffDetail(sb, got), H0)
					return
				}
				if op.S == "pokeall" {
					res = nil // the result is garbage now; nothing more to do with it
					resBytes = nil
				}
			}
		}
		x.Step(i, "slot", op.K, H(Marshal(src))+"|"+H([]byte(normaliseResult(resBytes))))
		if len(x.R.Violations) > 0 {
			break
		}
	}
	x.R.SimTimeS = time.Since(t0).Seconds()
}

func uniqStrings(l []string) []string {
	var out []string
	for _, e := range l {
		if !contains(out, e) {
			out = append(out, e)
		}
	}
	return out
}

func contains(l []string, s string) bool {
	for _, e := range l {
		if e == s {
			return true
		}
	}
	return false
}

func todayOK(date string, now time.Time, loc *time.Location) bool {
	return date == now.UTC().Format("2006-01-02") || date == now.In(loc).Format("2006-01-02")
}

func c16common(x *X, what string, srcTree *JV, res *gobl.Envelope, H0 string) (*JV, bool) {
	rt, err := ParseJV(Marshal(res))
	if err != nil {
		x.Violate(what+":unparseable", "result does not serialise to JSON")
		return nil, false
	}
	bad := func(sig, f string, a ...any) {
		x.Violate(what+":"+sig, fmt.Sprintf(f, a...)+"\n  history: "+H0)
	}
	if len(res.Signatures) != 0 || rt.Get("sigs") != nil {
		bad("signed", "the result carries %d signatures", len(res.Signatures))
	}
	if st := rt.Get("head").Get("stamps"); st != nil && len(st.A) > 0 {
		bad("header-stamps", "the result's header carries stamps: %s", st.Encode(nil))
	}
	hu, du := rt.Get("head").Get("uuid").Str(), rt.Get("doc").Get("uuid").Str()
	if hu == "" || hu == srcTree.Get("head").Get("uuid").Str() {
		bad("head-uuid", "the result's envelope identifier %q is not new (source %q)", hu, srcTree.Get("head").Get("uuid").Str())
	}
	if du == "" || du == srcTree.Get("doc").Get("uuid").Str() {
		bad("doc-uuid", "the result's document identifier %q is not new (source %q)", du, srcTree.Get("doc").Get("uuid").Str())
	}
	if c := rt.Get("doc").Get("code").Str(); c != "" {
		bad("code-kept", "the result still has code %q", c)
	}
	// freshly calculated: calculating again is the identity and the digest matches
	b1 := Marshal(res)
	cp, err := ParseEnv(b1)
	if err == nil {
		if err := cp.Calculate(); err != nil {
			bad("recalc-fails", "the result cannot be recalculated: %v", err)
		} else if b2 := Marshal(cp); !bytes.Equal(b1, b2) {
			bad("not-fresh:"+GDiff(b1, b2), "the result is not freshly calculated; %s", DiffDetail(b1, b2))
		}
		if err := cp.Validate(); err != nil && errKey(err) == "digest" {
			bad("digest", "the result's digest does not match its document: %v", err)
		}
	}
	return rt, len(x.R.Violations) == 0
}

func c16checkCorrection(x *X, d *Doc, srcTree *JV, src, res *gobl.Envelope, o *c16opts, def pubCorrection, avail map[string]string, now time.Time, loc *time.Location, H0 string) {
	rt, ok := c16common(x, "correction", srcTree, res, H0)
	if !ok {
		return
	}
	bad := func(sig, f string, a ...any) {
		x.Violate("correction:"+sig, fmt.Sprintf(f, a...)+"\n  history: "+H0)
	}
	sd, rd := srcTree.Get("doc"), rt.Get("doc")
	if rd.Get("type").Str() != o.typ {
		bad("type", "result type %q, requested %q", rd.Get("type").Str(), o.typ)
	}
	pre := rd.Get("preceding")
	if pre == nil || len(pre.A) != 1 {
		n := 0
		if pre != nil {
			n = len(pre.A)
		}
		bad("preceding-count", "result has %d preceding references, expected exactly one", n)
		return
	}
	p0 := pre.A[0]
	for _, f := range []string{"uuid", "type", "series", "code", "issue_date"} {
		if p0.Get(f).Str() != sd.Get(f).Str() {
			bad("preceding-"+f, "preceding[0].%s = %q but the source's is %q", f, p0.Get(f).Str(), sd.Get(f).Str())
		}
	}
	if p0.Get("reason").Str() != o.reason {
		bad("preceding-reason", "preceding[0].reason = %q, passed %q", p0.Get("reason").Str(), o.reason)
	}
	for _, k := range SortedKeys(o.ext) {
		// an addon may move a correction extension to the document level
		// (es-verifactu moves its doc type into tax.ext); either place carries it
		if p0.Get("ext").Get(k).Str() != o.ext[k] && rd.Get("tax").Get("ext").Get(k).Str() != o.ext[k] {
			bad("preceding-ext", "extension %s=%q passed to the correction is neither in preceding[0].ext (%q) nor in the document's tax.ext (%q)", k, o.ext[k], p0.Get("ext").Get(k).Str(), rd.Get("tax").Get("ext").Get(k).Str())
		}
	}
	for _, s := range def.Stamps {
		found := ""
		if st := p0.Get("stamps"); st != nil {
			for _, e := range st.A {
				if e.Get("prv").Str() == s {
					found = e.Get("val").Str()
				}
			}
		}
		okv := false
		for _, hs := range src.Head.Stamps {
			if hs.Provider.String() == s && hs.Value == found {
				okv = true
			}
		}
		for _, os := range o.stamps {
			if os[0] == s && os[1] == found {
				okv = true
			}
		}
		if found == "" || !okv {
			bad("preceding-stamp", "preceding[0] lacks the required stamp %q with the source's/option's value (found %q)", s, found)
		}
	}
	// ... and only those: other stamps of the source's header (or of the options) are the
	// source's own material, not what the regime requires a correction to carry
	if st := p0.Get("stamps"); st != nil && st.K == 'a' {
		for _, e := range st.A {
			prv := e.Get("prv").Str()
			req := false
			for _, s := range def.Stamps {
				if s == prv {
					req = true
				}
			}
			if !req {
				bad("preceding-stamp-not-required", "preceding[0] carries the stamp %q, which the published correction definitions (%v) do not ask for", prv, def.Stamps)
			}
		}
		x.Probe("preceding-stamps-only-required")
	}
	if o.copyTax {
		// the source's tax summary is carried along: the same categories, each retained or not as
		// in the source, with the same rate rows (amounts are recalculated and not compared)
		shape := func(t *JV) string {
			var out []string
			if t == nil || t.Get("categories") == nil {
				return ""
			}
			for _, c := range t.Get("categories").A {
				row := c.Get("code").Str() + ":retained=" + fmt.Sprint(c.Get("retained") != nil && c.Get("retained").K == 't') + ":"
				var rs []string
				if c.Get("rates") != nil {
					for _, r := range c.Get("rates").A {
						rs = append(rs, r.Get("key").Str()+"/"+r.Get("percent").Str()+"/"+r.Get("surcharge").Get("percent").Str())
					}
				}
				sort.Strings(rs)
				out = append(out, row+strings.Join(rs, ","))
			}
			sort.Strings(out)
			return strings.Join(out, ";")
		}
		if st := sd.Get("totals").Get("taxes"); st != nil {
			if a, b := shape(st), shape(p0.Get("tax")); a != b {
				bad("copy-tax-shape", "copy_tax: preceding[0].tax does not have the source's tax categories and rate rows\n  source    %s\n  preceding %s", a, b)
			}
			x.Probe("copy-tax-compared")
		}
	}
	date := rd.Get("issue_date").Str()
	if o.date != "" {
		if date != o.date {
			bad("issue-date-option", "issue date %q, option said %q", date, o.date)
		}
	} else if !todayOK(date, now, loc) {
		bad("issue-date-today", "issue date %q is neither the UTC date %s nor the regime-local date %s of the simulated instant", date, now.UTC().Format("2006-01-02"), now.In(loc).Format("2006-01-02"))
	}
	if now.UTC().Format("2006-01-02") != now.In(loc).Format("2006-01-02") {
		x.Probe("corrected-near-midnight")
	}
}

func c16inputs(doc *JV) string {
	var sb strings.Builder
	for _, k := range []string{"$regime", "$addons", "supplier", "customer", "currency", "type", "series", "tax", "payment", "ordering", "delivery", "discounts", "charges"} {
		if v := doc.Get(k); v != nil {
			c := v.Clone()
			sb.WriteString(k + "=" + string(c.Encode(nil)) + ";")
		}
	}
	// what the document refers to (a replica of a correction still corrects the same document);
	// amounts inside are recalculated and left out
	if pre := doc.Get("preceding"); pre != nil && pre.K == 'a' {
		for _, p := range pre.A {
			if p == nil || p.K != 'o' {
				continue
			}
			sb.WriteString("preceding:")
			for _, k := range []string{"uuid", "type", "series", "code", "issue_date", "reason", "ext", "stamps"} {
				if v := p.Get(k); v != nil {
					sb.WriteString(k + "=" + string(v.Encode(nil)) + ",")
				}
			}
			sb.WriteString(";")
		}
	}
	if ls := doc.Get("lines"); ls != nil {
		for _, l := range ls.A {
			sb.WriteString("line:" + string(l.Get("quantity").Encode(nil)) + "|" + string(l.Get("item").Encode(nil)) + "|")
			if ts := l.Get("taxes"); ts != nil {
				for _, t := range ts.A {
					sb.WriteString(t.Get("cat").Str() + "/" + t.Get("rate").Str() + "/" + t.Get("key").Str() + ",")
				}
			}
			sb.WriteString(";")
		}
	}
	return sb.String()
}

func c16checkReplica(x *X, d *Doc, srcTree *JV, src, res *gobl.Envelope, now time.Time, loc *time.Location, H0 string) {
	rt, ok := c16common(x, "replica", srcTree, res, H0)
	if !ok {
		return
	}
	bad := func(sig, f string, a ...any) {
		x.Violate("replica:"+sig, fmt.Sprintf(f, a...)+"\n  history: "+H0)
	}
	sd, rd := srcTree.Get("doc"), rt.Get("doc")
	date := rd.Get("issue_date").Str()
	if !todayOK(date, now, loc) {
		bad("issue-date-today", "issue date %q is neither the UTC date %s nor the regime-local date %s of the simulated instant", date, now.UTC().Format("2006-01-02"), now.In(loc).Format("2006-01-02"))
	}
	if now.UTC().Format("2006-01-02") != now.In(loc).Format("2006-01-02") {
		x.Probe("replicated-near-midnight")
	}
	// business content: parties and line inputs
	for _, k := range []string{"supplier", "customer", "currency", "type"} {
		a, b := sd.Get(k), rd.Get(k)
		if (a == nil) != (b == nil) || (a != nil && !a.Equal(b)) {
			bad("content-"+k, "replica's %s differs from the source's", k)
		}
	}
	// what the document refers to: a replica of a correction still corrects the same document
	// (stamps are header material of the referenced document and are dropped with the rest)
	refs := func(doc *JV) string {
		var sb strings.Builder
		if pre := doc.Get("preceding"); pre != nil && pre.K == 'a' {
			for _, p := range pre.A {
				for _, k := range []string{"uuid", "type", "series", "code", "issue_date", "reason"} {
					sb.WriteString(k + "=" + p.Get(k).Str() + ",")
				}
				sb.WriteString(";")
			}
		}
		return sb.String()
	}
	if a, b := refs(sd), refs(rd); a != b {
		bad("content-preceding", "the replica does not refer to the documents the source refers to: source %q, replica %q", a, b)
	}
	// everything else a document says that is neither an identifier, a date of the
	// document itself, nor computed: the same members with the same values
	if a, b := replicaSkeleton(sd), replicaSkeleton(rd); !a.Equal(b) {
		ab, bb := a.Encode(nil), b.Encode(nil)
		bad("content:"+GDiff(ab, bb), "the replica does not keep the source's content; %s", DiffDetail(ab, bb))
	} else {
		x.Probe("replica-keeps-content")
	}
	sl, rl := sd.Get("lines"), rd.Get("lines")
	if (sl == nil) != (rl == nil) || (sl != nil && len(sl.A) != len(rl.A)) {
		bad("content-lines", "replica has a different number of lines")
	} else if sl != nil {
		for i := range sl.A {
			if !sl.A[i].Get("quantity").Equal(rl.A[i].Get("quantity")) || !sl.A[i].Get("item").Equal(rl.A[i].Get("item")) {
				bad("content-line", "replica line %d quantity/item differ from the source's", i)
			}
		}
	}
}

// c16mutate mutates the result (or the source) in place through the typed API.
func c16mutate(x *X, op Op, src, res *gobl.Envelope) string {
	target := res
	if op.S == "editsource" || op.S == "pokesource" {
		target = src
	}
	inv, _ := target.Extract().(*bill.Invoice)
	if inv == nil {
		return ""
	}
	switch op.S {
	case "editline", "editsource":
		if len(inv.Lines) == 0 || inv.Lines[0].Item == nil {
			return ""
		}
		inv.Lines[0].Quantity = num.MakeAmount(977, 1)
		inv.Lines[0].Item.Name = "mutated item"
		if len(inv.Lines[0].Taxes) > 0 {
			inv.Lines[0].Taxes[0].Ext = tax.Extensions{"sim-ext": "x"}
		}
		return "line 0 quantity, item name and first tax combo extensions written in place"
	case "editparty":
		if inv.Supplier == nil {
			return ""
		}
		inv.Supplier.Name = "Mutated Supplier"
		if len(inv.Supplier.Addresses) > 0 {
			inv.Supplier.Addresses[0].Locality = "Mutated"
		}
		if inv.Supplier.TaxID != nil {
			inv.Supplier.TaxID.Code = "MUTATED"
		}
		if inv.Customer != nil {
			inv.Customer.Name = "Mutated Customer"
		}
		return "supplier/customer fields written in place"
	case "prestamp":
		if len(inv.Preceding) == 0 || len(inv.Preceding[0].Stamps) == 0 {
			return ""
		}
		inv.Preceding[0].Stamps[0].Value = "tampered-in-result"
		return "preceding[0].stamps[0].val written in place"
	case "headstamp":
		res.Head.AddStamp(&head.Stamp{Provider: "sim-prv-z", Value: "zz"})
		if res.Head.Meta == nil {
			res.Head.Meta = cbc.Meta{}
		}
		res.Head.Meta["k"] = "v"
		return "stamp and meta added to the result's header"
	case "recalc":
		_ = res.Calculate()
		return "result recalculated"
	case "sign":
		inv.Code = "CORR-1"
		_ = res.Calculate()
		_ = res.Sign(PrivKey(int(op.I)))
		return "result given a code, recalculated and signed"
	case "pokeall":
		// write to every field, map entry and slice slot reachable from the result's document and header
		n := pokeAll(reflect.ValueOf(inv), 0, map[uintptr]bool{})
		n += pokeAll(reflect.ValueOf(res.Head), 0, map[uintptr]bool{})
		if n == 0 {
			return ""
		}
		return fmt.Sprintf("%d fields, map entries and slice slots of the result written in place", n)
	case "pokesource":
		n := pokeAll(reflect.ValueOf(inv), 0, map[uintptr]bool{})
		if n == 0 {
			return ""
		}
		return fmt.Sprintf("%d fields of the source written in place", n)
	case "notes":
		if len(inv.Notes) > 0 {
			inv.Notes[0].Text = "mutated note"
		} else {
			return ""
		}
		return "first note text written in place"
	}
	return ""
}

// c16agree runs the same operation through the other entry points at the same
// simulated instant and compares outcomes with the library's.
func c16agree(x *X, what string, src *gobl.Envelope, o *c16opts, lres *gobl.Envelope, lerr error, H0, caseID string) {
	data := Marshal(src)
	// what the CLI paths are expected to return: they additionally validate the result
	expectErr := lerr != nil
	if lres != nil {
		cp, err := ParseEnv(Marshal(lres))
		if err == nil && cp.Validate() != nil {
			expectErr = true
		}
	}
	want := ""
	if lres != nil {
		want = normaliseResult(Marshal(lres))
	}
	var optData []byte
	if o != nil {
		optData = o.jsonData()
	}
	chunk := []int{0, 1, 7, 64}[int(x.P.Run)%4]
	for _, ep := range []string{epCLI, epBulk, epCobra, epHTTPBulk} {
		var out []byte
		var err error
		p := safely(func() {
			switch ep {
			case epCLI:
				var r any
				if what == "correct" {
					r, err = cli.Correct(context.Background(), &cli.CorrectOptions{ParseOptions: &cli.ParseOptions{Input: chunkedReader(x, "in", data, chunk)}, Data: optData})
				} else {
					r, err = cli.Replicate(context.Background(), &cli.ReplicateOptions{ParseOptions: &cli.ParseOptions{Input: chunkedReader(x, "in", data, chunk)}})
				}
				if err == nil {
					out = Marshal(r)
				}
			case epBulk, epHTTPBulk:
				pl := map[string]any{"data": data}
				if what == "correct" {
					pl["options"] = optData
				}
				req := map[string]any{"action": what, "req_id": "r", "payload": pl}
				if ep == epBulk {
					res, e2 := bulkOne(x, req, chunk, nil)
					if e2 != nil {
						err = e2
					} else if res.Error != nil {
						err = res.Error
					} else {
						out = res.Payload
					}
				} else {
					b, _ := json.Marshal(req)
					code, body := httpDo("/bulk", append(b, '\n'), nil)
					var first cli.BulkResponse
					if code != 200 {
						err = fmt.Errorf("http %d", code)
					} else if e2 := json.NewDecoder(bytes.NewReader(body)).Decode(&first); e2 != nil {
						err = e2
					} else if first.Error != nil {
						err = first.Error
					} else {
						out = first.Payload
					}
				}
			case epCobra:
				args := []string{what}
				if what == "correct" {
					switch {
					case o != nil && o.onlyType() && o.typ == "credit-note" && x.P.Run%2 == 0:
						args = append(args, "--credit")
					case o != nil && o.onlyType() && o.typ == "debit-note" && x.P.Run%2 == 0:
						args = append(args, "--debit")
					case o != nil && !o.onlyType() && o.typ == "credit-note" && x.P.Run%3 == 1:
						// the type as a flag, everything else as the options object
						args = append(args, "--credit", "--data", string(optData))
						x.Probe("cobra-type-flag-with-options-object")
					case o != nil && !o.onlyType() && o.typ == "debit-note" && x.P.Run%3 == 1:
						args = append(args, "--debit", "-d", string(optData))
						x.Probe("cobra-type-flag-with-options-object")
					default:
						args = append(args, "--data", string(optData))
					}
				}
				args = append(args, "-")
				so, se := NewSimWriter(x, "stdout"), NewSimWriter(x, "stderr")
				err = Cobra(context.Background(), args, chunkedReader(x, "stdin", data, chunk), so, se)
				if err == nil {
					out = bytes.TrimSpace(so.Bytes())
				}
			}
		})
		x.Case(caseID + "|" + ep)
		if p != "" {
			x.Violate(what+":panic:"+ep, "entry point %s panicked: %s\n  history: %s", ep, p, H0)
			return
		}
		if (err != nil) != expectErr {
			x.Violate(what+":entry-points-disagree:"+ep, "entry point %s returned error=%v while the library path gives error=%v (result valid=%v)\n  history: %s", ep, err, lerr, !expectErr, H0)
			return
		}
		if err == nil {
			if got := normaliseResult(out); got != want {
				x.Violate(what+":entry-points-differ:"+ep+":"+GDiff([]byte(want), []byte(got)), "entry point %s produced a different document than the library; %s\n  history: %s", ep, DiffDetail([]byte(want), []byte(got)), H0)
				return
			}
			x.Probe("entry-points-agree")
		}
	}
}

// c16bare: the same request for the bare document (no envelope around it). The command-line
// paths must then do what the library does with the document alone: correct or replicate it and
// hand it back only if it validates.
func c16bare(x *X, what string, src *gobl.Envelope, o *c16opts, H0, caseID string) {
	if src.Document == nil {
		return
	}
	docBytes, err := json.Marshal(src.Document)
	if err != nil {
		return
	}
	var optData []byte
	if o != nil {
		optData = o.jsonData()
	}
	// reference: the library on a parsed copy of the document
	ref := new(schema.Object)
	if err := json.Unmarshal(docBytes, ref); err != nil {
		return
	}
	var refErr error
	if p := safely(func() {
		if what == "correct" {
			refErr = ref.Correct(bill.WithData(optData))
		} else {
			refErr = ref.Replicate()
		}
		if refErr == nil {
			refErr = ref.Validate()
		}
	}); p != "" {
		return
	}
	want := ""
	if refErr == nil {
		want = normaliseDoc(Marshal(ref))
	}
	chunk := []int{0, 1, 7, 64}[int(x.P.Run)%4]
	for _, ep := range []string{epCLI, epBulk} {
		var out []byte
		var err error
		p := safely(func() {
			switch ep {
			case epCLI:
				var r any
				if what == "correct" {
					r, err = cli.Correct(context.Background(), &cli.CorrectOptions{ParseOptions: &cli.ParseOptions{Input: chunkedReader(x, "in", docBytes, chunk)}, Data: optData})
				} else {
					r, err = cli.Replicate(context.Background(), &cli.ReplicateOptions{ParseOptions: &cli.ParseOptions{Input: chunkedReader(x, "in", docBytes, chunk)}})
				}
				if err == nil {
					out = Marshal(r)
				}
			case epBulk:
				pl := map[string]any{"data": docBytes}
				if what == "correct" {
					pl["options"] = optData
				}
				res, e2 := bulkOne(x, map[string]any{"action": what, "req_id": "r", "payload": pl}, chunk, nil)
				if e2 != nil {
					err = e2
				} else if res.Error != nil {
					err = res.Error
				} else {
					out = res.Payload
				}
			}
		})
		x.Case(caseID + "|bare|" + ep)
		x.Probe("bare-document-through-entry-point")
		if p != "" {
			x.Violate(what+":panic:bare:"+ep, "entry point %s panicked on the bare document: %s\n  history: %s", ep, p, H0)
			return
		}
		if (err != nil) != (refErr != nil) {
			x.Violate(what+":bare-document-disagrees:"+ep, "entry point %s given the bare document returned error=%v while the library's %s + validate of the same document gives error=%v\n  history: %s", ep, err, what, refErr, H0)
			return
		}
		if err == nil {
			if got := normaliseDoc(out); got != want {
				x.Violate(what+":bare-document-differs:"+ep+":"+GDiff([]byte(want), []byte(got)), "entry point %s given the bare document produced another document than the library; %s\n  history: %s", ep, DiffDetail([]byte(want), []byte(got)), H0)
				return
			}
		}
	}
}

// normaliseDoc strips what each run generates by itself from a bare document (or from the
// document of an envelope, if one came back).
func normaliseDoc(b []byte) string {
	v, err := ParseJV(b)
	if err != nil {
		return "unparseable: " + string(b)
	}
	if d := v.Get("doc"); d != nil && v.Get("head") != nil {
		v = d
	}
	v.Del("uuid")
	return string(v.Encode(nil))
}

var _ = sort.Strings


// replicaSkeleton: a document without what a replica renews (identifier, code,
// its own dates) and without what a calculation at another date may compute
// differently (totals and every amount, percentage and base).
func replicaSkeleton(doc *JV) *JV {
	if doc == nil {
		return &JV{K: 'z'}
	}
	c := doc.Clone()
	for _, k := range []string{"uuid", "code", "issue_date", "value_date", "op_date", "totals"} {
		c.Del(k)
	}
	computed := map[string]bool{"sum": true, "total": true, "amount": true, "percent": true, "surcharge": true, "base": true, "uuid": true}
	var strip func(v *JV)
	strip = func(v *JV) {
		switch v.K {
		case 'o':
			var keep []JM
			for _, m := range v.M {
				if computed[m.Key] {
					continue
				}
				strip(m.V)
				keep = append(keep, m)
			}
			v.M = keep
		case 'a':
			for _, e := range v.A {
				strip(e)
			}
		}
	}
	strip(c)
	return c
}
