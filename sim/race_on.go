//go:build race

package verifsim

// RaceEnabled reports whether the binary was built with the race detector.
const RaceEnabled = true
