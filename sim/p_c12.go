package verifsim

import (
	"encoding/json"
	"fmt"
	"os"
	"path/filepath"
	"sort"
	"strings"
	"sync"
	"time"

	"github.com/invopop/gobl"
	"github.com/invopop/gobl/schema"
)

// C12 — the rate applied on a date is the one in force on that date.
// World W-CLOCK: when a document carries no date, the tax date is the clock
// read in the regime's time zone. The simulated clock walks forward through
// every boundary instant of every published table; the oracle tables are the
// published data/regimes/*.json files, not the Go definitions.

type pubRateValue struct {
	Since     string            `json:"since"`
	Percent   string            `json:"percent"`
	Surcharge string            `json:"surcharge"`
	Tags      []string          `json:"tags"`
	Ext       map[string]string `json:"ext"`
	Disabled  bool              `json:"disabled"`
}

type pubRate struct {
	Key    string            `json:"key"`
	Exempt bool              `json:"exempt"`
	Ext    map[string]string `json:"ext"`
	Values []pubRateValue    `json:"values"`
}

type pubRegime struct {
	Country    string `json:"country"`
	TimeZone   string `json:"time_zone"`
	Currency   string `json:"currency"`
	Categories []struct {
		Code     string    `json:"code"`
		Retained bool      `json:"retained"`
		Rates    []pubRate `json:"rates"`
	} `json:"categories"`
	file string
}

var (
	pubRegMu   sync.Mutex
	pubRegimes []*pubRegime
)

func loadPubRegimes(repo string) []*pubRegime {
	pubRegMu.Lock()
	defer pubRegMu.Unlock()
	if pubRegimes != nil {
		return pubRegimes
	}
	files, _ := filepath.Glob(filepath.Join(repo, "data/regimes/*.json"))
	sort.Strings(files)
	for _, f := range files {
		b, err := os.ReadFile(f)
		if err != nil {
			continue
		}
		r := &pubRegime{file: filepath.Base(f)}
		if json.Unmarshal(b, r) != nil || r.Country == "" {
			continue
		}
		// file name is the regime code; the same country may be published twice (el/gr)
		r.file = strings.TrimSuffix(filepath.Base(f), ".json")
		pubRegimes = append(pubRegimes, r)
	}
	return pubRegimes
}

func init() {
	register(&PropDef{
		ID:    "C12",
		Level: "exploration",
		Rule: "for every published regime table × category × rate key × dated value (and each tag-/extension-qualified variant): tax dates D ∈ {start−1, start, start+1, a date before the first value, a far future date} (+ seeded arbitrary dates in thorough), each realised (a) by the simulated clock at local 00:00:00 / 12:00:00 / 23:59:59 of D in the regime's time zone with no date in the document, (b) by an explicit issue date, (c) by an explicit value date with a different issue date; the clock walks forward through all instants of a regime in one run; " +
			"a case is (regime, category, rate key, variant, D, realisation) and is non-trivial when D is within one day of a value's start date or before the first value; exhaustive over published tables × boundary dates",
		Assumptions: []string{
			"oracle tables are the published data/regimes/*.json files; when several applicable values tie on the latest start date any of them is accepted",
			"the simulated clock starts at 2000-01-01 and only moves forward, so clock realisations exist for D ≥ 2000-01-02; earlier dates are realised by explicit dates only",
			"a minimal invoice (supplier in the regime, one line, one tax combo) is used; regimes' normalisers run as usual",
		},
		RequiredProbes: []string{"clock-on-start-date", "clock-one-second-before-start-date", "date-before-first-value-refused", "qualified-variant", "clock-local-date-differs-from-utc"},
		Checks: []*CheckDef{{
			Name:       "clock",
			Bubble:     true,
			NumRuns:    func(c *Ctx) int64 { return int64(len(loadPubRegimes(c.Repo))) },
			Plan:       planC12,
			Exec:       execC12,
			Exhaustive: func(c *Ctx) bool { return true },
		}},
	})
}

func dateAdd(s string, days int) string {
	t, err := time.Parse("2006-01-02", s)
	if err != nil {
		return s
	}
	return t.AddDate(0, 0, days).Format("2006-01-02")
}

func planC12(c *Ctx, run int64) *Plan {
	regs := loadPubRegimes(c.Repo)
	reg := regs[run]
	r := RNG(c.Seed, run, 12)
	p := &Plan{Prop: "C12", Check: "clock", Seed: c.Seed, Run: run, Str: map[string]string{"regime": reg.file}}
	id := 0
	seen := map[string]bool{}
	add := func(cat, key, date string, mode int64, quals []string) {
		k := fmt.Sprint(cat, key, date, mode, quals)
		if seen[k] {
			return
		}
		seen[k] = true
		id++
		p.Ops = append(p.Ops, Op{ID: id, K: "case", S: cat, S2: key, S3: date, I: mode, L: quals})
	}
	for _, cat := range reg.Categories {
		for _, rate := range cat.Rates {
			if rate.Exempt {
				add(cat.Code, rate.Key, "2024-05-05", 3, nil)
				add(cat.Code, rate.Key, "2024-05-05", 1, nil)
				continue
			}
			if len(rate.Values) == 0 {
				continue
			}
			// variants: unqualified plus each distinct qualification
			variants := [][]string{nil}
			vs := map[string]bool{}
			for _, v := range rate.Values {
				var q []string
				if len(v.Tags) > 0 {
					q = append(q, "tag:"+v.Tags[0])
				}
				for _, k := range SortedKeys(v.Ext) {
					q = append(q, "ext:"+k+"="+v.Ext[k])
				}
				if len(q) > 0 && !vs[fmt.Sprint(q)] {
					vs[fmt.Sprint(q)] = true
					variants = append(variants, q)
				}
			}
			var dates []string
			first := ""
			for _, v := range rate.Values {
				if v.Since == "" {
					continue
				}
				dates = append(dates, dateAdd(v.Since, -1), v.Since, dateAdd(v.Since, 1))
				if first == "" || v.Since < first {
					first = v.Since
				}
			}
			if first != "" {
				dates = append(dates, dateAdd(first, -400))
			}
			dates = append(dates, "2031-03-09", "2024-02-29")
			if c.Tier == "thorough" {
				for i := 0; i < 60; i++ {
					dates = append(dates, dateAdd("1990-01-01", r.IntN(16000)))
				}
			}
			for _, q := range variants {
				for _, d := range dates {
					add(cat.Code, rate.Key, d, 3, q)
					add(cat.Code, rate.Key, d, 4, q)
					add(cat.Code, rate.Key, d, 5, q)  // the table reached through a per-combo country override from another regime
					add(cat.Code, rate.Key, d, 6, q)  // value date later than the issue date, operation date present
					add(cat.Code, rate.Key, d, 7, q)  // an order instead of an invoice
					add(cat.Code, rate.Key, d, 8, q)  // a delivery, with a despatch date that is not the tax date
					add(cat.Code, rate.Key, d, 11, q) // a line that comes to nothing (quantity 0) still gets its rate
					add(cat.Code, rate.Key, d, 10, q) // the combo spells out the regime's own country
					add(cat.Code, rate.Key, d, 9, q)  // no issue date (the clock supplies it), the value date is the tax date
					if d >= "2000-01-02" {
						add(cat.Code, rate.Key, d, 0, q)
						add(cat.Code, rate.Key, d, 1, q)
						add(cat.Code, rate.Key, d, 2, q)
					}
				}
			}
		}
	}
	return p
}

type c12case struct {
	op      Op
	instant time.Time
}

func execC12(x *X) {
	var reg *pubRegime
	for _, r := range loadPubRegimes(x.C.Repo) {
		if r.file == x.P.Str["regime"] {
			reg = r
		}
	}
	if reg == nil {
		x.R.Infra = "regime file missing: " + x.P.Str["regime"]
		return
	}
	loc, err := time.LoadLocation(reg.TimeZone)
	if err != nil {
		x.Violate("table:time-zone:"+reg.file, "published regime %s names time zone %q which cannot be loaded: %v", reg.file, reg.TimeZone, err)
		return
	}
	// independent table check: unqualified values in strictly descending date order
	for _, cat := range reg.Categories {
		for _, rate := range cat.Rates {
			prev := "9999-99-99"
			for _, v := range rate.Values {
				if len(v.Tags) > 0 || len(v.Ext) > 0 {
					continue
				}
				s := v.Since // "" = undated = oldest
				if !(s < prev) {
					x.Violate("table:order:"+reg.file+":"+cat.Code+":"+rate.Key, "published table %s %s/%s lists its values out of strictly descending date order (%q after %q)", reg.file, cat.Code, rate.Key, s, prev)
				}
				prev = s
				x.Eval()
			}
		}
	}
	t0 := time.Now()
	var explicit, clock []c12case
	for _, op := range x.P.Ops {
		if op.K != "case" {
			continue
		}
		if op.I >= 3 {
			explicit = append(explicit, c12case{op: op})
			continue
		}
		d, err := time.ParseInLocation("2006-01-02", op.S3, loc)
		if err != nil {
			continue
		}
		var t time.Time
		switch op.I {
		case 0:
			t = d
		case 1:
			t = time.Date(d.Year(), d.Month(), d.Day(), 12, 0, 0, 0, loc)
		case 2:
			t = time.Date(d.Year(), d.Month(), d.Day(), 23, 59, 59, 0, loc)
		}
		clock = append(clock, c12case{op: op, instant: t})
	}
	sort.SliceStable(clock, func(i, j int) bool { return clock[i].instant.Before(clock[j].instant) })
	step := 0
	for _, cs := range explicit {
		c12one(x, reg, loc, cs, step, false)
		step++
		// the same combo as left behind by an earlier calculation under another rate key:
		// what the document receives is still the table's value, nothing it carried before
		c12one(x, reg, loc, cs, step, true)
		step++
		if len(x.R.Violations) > 0 {
			break
		}
	}
	for _, cs := range clock {
		if len(x.R.Violations) > 0 {
			break
		}
		if d := cs.instant.Sub(time.Now()); d > 0 {
			time.Sleep(d)
			x.Fault("clock-advance")
		} else if d < 0 {
			continue // the clock cannot go back (only when ops were reordered by shrinking)
		}
		c12one(x, reg, loc, cs, step, false)
		step++
	}
	x.R.SimTimeS = time.Since(t0).Seconds()
}

func findRate(reg *pubRegime, cat, key string) (*pubRate, bool) {
	for _, c := range reg.Categories {
		if c.Code != cat {
			continue
		}
		for i := range c.Rates {
			if c.Rates[i].Key == key {
				return &c.Rates[i], c.Retained
			}
		}
	}
	return nil, false
}

func c12one(x *X, reg *pubRegime, loc *time.Location, cs c12case, step int, stale bool) {
	op := cs.op
	rate, _ := findRate(reg, op.S, op.S2)
	if rate == nil {
		return
	}
	D := op.S3
	var tags []string
	ext := map[string]string{}
	for _, q := range op.L {
		if strings.HasPrefix(q, "tag:") {
			tags = append(tags, q[4:])
		} else if strings.HasPrefix(q, "ext:") {
			kv := strings.SplitN(q[4:], "=", 2)
			ext[kv[0]] = kv[1]
		}
	}
	// rate-level predefined extensions are copied into the combo by the library
	for k, v := range rate.Ext {
		if _, ok := ext[k]; !ok {
			ext[k] = v
		}
	}
	// ---- expected, from the published table
	type cand struct{ v pubRateValue }
	var applicable []pubRateValue
	for _, v := range rate.Values {
		if len(v.Tags) > 0 {
			ok := false
			for _, t := range v.Tags {
				if contains(tags, t) {
					ok = true
				}
			}
			if !ok {
				continue
			}
		}
		okx := true
		for k, val := range v.Ext {
			if ext[k] != val {
				okx = false
			}
		}
		if !okx {
			continue
		}
		if v.Since == "" || v.Since <= D {
			applicable = append(applicable, v)
		}
	}
	best := ""
	for _, v := range applicable {
		if v.Since > best {
			best = v.Since
		}
	}
	var accept []pubRateValue
	for _, v := range applicable {
		if v.Since == best {
			accept = append(accept, v)
		}
	}
	// a value qualified by a tag or extension that applies is more specific than an
	// unqualified one with the same start date (otherwise the qualified row could never apply)
	var specific []pubRateValue
	for _, v := range accept {
		if len(v.Tags) > 0 || len(v.Ext) > 0 {
			specific = append(specific, v)
		}
	}
	if len(specific) > 0 && len(specific) < len(accept) {
		accept = specific
	}
	// ---- the document
	combo := map[string]any{"cat": op.S, "rate": op.S2}
	cext := map[string]string{}
	for _, q := range op.L {
		if strings.HasPrefix(q, "ext:") {
			kv := strings.SplitN(q[4:], "=", 2)
			cext[kv[0]] = kv[1]
		}
	}
	if len(cext) > 0 {
		combo["ext"] = cext
	}
	if stale {
		combo["percent"] = "99.9%"
		combo["surcharge"] = "9.9%"
		x.Probe("stale-combo-values")
	}
	doc := map[string]any{
		"$schema":  "https://gobl.org/draft-0/bill/invoice",
		"$regime":  strings.ToUpper(reg.file),
		"uuid":     "01900000-0000-7000-8000-00000000c012",
		"currency": reg.Currency,
		"supplier": map[string]any{"name": "Clock Supplier", "tax_id": map[string]any{"country": strings.ToUpper(reg.file)}},
		"lines": []any{map[string]any{"quantity": "1", "item": map[string]any{"name": "thing", "price": "100.00"},
			"taxes": []any{combo}}},
	}
	if len(tags) > 0 {
		doc["$tags"] = tags
	}
	mode := []string{"clock-00:00:00", "clock-12:00:00", "clock-23:59:59", "issue_date", "value_date", "foreign-combo", "value_date-after-issue", "order", "delivery", "value_date-on-undated-document", "own-country-spelled-out", "zero-quantity-line"}[op.I]
	switch op.I {
	case 3:
		doc["issue_date"] = D
		if stale {
			// when the operation took place is not when the tax applies
			doc["op_date"] = dateAdd(D, -230)
		}
	case 4:
		doc["issue_date"] = dateAdd(D, 45)
		doc["value_date"] = D
		doc["op_date"] = dateAdd(D, 200) // the operation date is not the tax date
	case 6:
		doc["issue_date"] = dateAdd(D, -400)
		doc["value_date"] = D
		doc["op_date"] = dateAdd(D, -800)
	case 11:
		doc["issue_date"] = D
		doc["lines"].([]any)[0].(map[string]any)["quantity"] = "0"
	case 10:
		doc["issue_date"] = D
		combo["country"] = strings.ToUpper(reg.Country)
	case 9:
		// the issue date is left to the clock; the value date says when the tax applies
		doc["value_date"] = D
	case 8:
		doc["$schema"] = "https://gobl.org/draft-0/bill/delivery"
		doc["issue_date"] = D
		doc["despatch_date"] = dateAdd(D, -170)
		doc["receive_date"] = dateAdd(D, 190)
	case 7:
		doc["$schema"] = "https://gobl.org/draft-0/bill/order"
		doc["issue_date"] = D
		doc["op_date"] = dateAdd(D, 200) // the operation date is not the tax date
	case 5:
		// an invoice of another regime whose combo names this regime's country
		host := "ES"
		if strings.EqualFold(reg.file, "es") {
			host = "PT"
		}
		doc["$regime"] = host
		doc["supplier"] = map[string]any{"name": "Clock Supplier", "tax_id": map[string]any{"country": host}}
		doc["currency"] = "EUR"
		doc["issue_date"] = D
		combo["country"] = strings.ToUpper(reg.Country)
	}
	if stale && strings.HasSuffix(doc["$schema"].(string), "/bill/invoice") {
		// other dates a document carries are not the tax date: a preceding document issued long
		// before, the period the order covers, a payment due long after
		doc["preceding"] = []any{map[string]any{"series": "OLD", "code": "0001", "issue_date": dateAdd(D, -420)}}
		doc["ordering"] = map[string]any{"period": map[string]any{"start": dateAdd(D, -500), "end": dateAdd(D, -470)}}
		doc["payment"] = map[string]any{"terms": map[string]any{"key": "due-date", "due_dates": []any{map[string]any{"date": dateAdd(D, 430), "percent": "100%"}}}}
	}
	if stale && strings.Contains(op.S2, "+") && op.I != 11 {
		// a plain line of the base key first: the tested line comes second and must still be
		// summarised with everything its own key brings (an equivalence surcharge, for one)
		base := strings.SplitN(op.S2, "+", 2)[0]
		if br, _ := findRate(reg, op.S, base); br != nil && !br.Exempt {
			plain := map[string]any{"cat": op.S, "rate": base}
			if cc, ok := combo["country"]; ok {
				plain["country"] = cc
			}
			first := map[string]any{"quantity": "1", "item": map[string]any{"name": "plain", "price": "50.00"}, "taxes": []any{plain}}
			doc["lines"] = append([]any{first}, doc["lines"].([]any)...)
		}
	}
	if !stale && op.I != 11 && op.I != 5 && !rate.Exempt {
		// lines of the same rate key under other qualifications first (the plain one, and the
		// values other extensions select): the tested line comes last and must still get the
		// value its own extensions select
		var others []any
		seenQ := map[string]bool{fmt.Sprint(cext): true}
		addOther := func(e map[string]string) {
			if seenQ[fmt.Sprint(e)] || len(others) >= 3 {
				return
			}
			seenQ[fmt.Sprint(e)] = true
			oc := map[string]any{"cat": op.S, "rate": op.S2}
			if len(e) > 0 {
				oc["ext"] = e
			}
			if cc, ok := combo["country"]; ok {
				oc["country"] = cc
			}
			others = append(others, map[string]any{"quantity": "1", "item": map[string]any{"name": "other", "price": "50.00"}, "taxes": []any{oc}})
		}
		hasExt := false
		for _, v := range rate.Values {
			if len(v.Ext) > 0 && len(v.Tags) == 0 {
				hasExt = true
			}
		}
		if hasExt {
			addOther(map[string]string{})
			for _, v := range rate.Values {
				if len(v.Ext) > 0 && len(v.Tags) == 0 {
					addOther(v.Ext)
				}
			}
			if len(others) > 0 {
				doc["lines"] = append(others, doc["lines"].([]any)...)
				x.Probe("same-key-other-qualifications-first")
			}
		}
	}
	db, _ := json.Marshal(doc)
	x.Entropy(op.ID)
	var env *gobl.Envelope
	var cerr error
	if p := safely(func() {
		o := new(schema.Object)
		if err := json.Unmarshal(db, o); err != nil {
			cerr = err
			return
		}
		env, cerr = gobl.Envelop(o)
	}); p != "" {
		x.Probe("panic-during-calculation")
		return
	}
	caseID := fmt.Sprintf("%s|%s|%s|%v|%s|%s", reg.file, op.S, op.S2, op.L, D, mode)
	if stale {
		mode += ", combo carrying percent 99.9% and surcharge 9.9% from before, document carrying a preceding reference, an ordering period and a due date in other periods"
		caseID += "|stale"
	}
	x.Case(caseID)
	near := false
	for _, v := range rate.Values {
		if v.Since != "" && (D == v.Since || D == dateAdd(v.Since, -1) || D == dateAdd(v.Since, 1)) {
			near = true
			if op.I == 0 && D == v.Since {
				x.Probe("clock-on-start-date")
			}
			if op.I == 2 && D == dateAdd(v.Since, -1) {
				x.Probe("clock-one-second-before-start-date")
			}
		}
	}
	if near {
		x.R.Nontrivial = true
	}
	if len(op.L) > 0 {
		x.Probe("qualified-variant")
	}
	where := fmt.Sprintf("regime %s, %s/%s %v, tax date %s realised by %s", reg.file, op.S, op.S2, op.L, D, mode)
	x.Step(step, "clock", mode, caseID)
	gotP, gotS := "", ""
	if cerr == nil {
		v, _ := ParseJV(Marshal(env))
		tx := v.Get("doc").Get("lines")
		if tx != nil && len(tx.A) > 0 {
			if ts := tx.A[len(tx.A)-1].Get("taxes"); ts != nil && len(ts.A) > 0 {
				gotP, gotS = ts.A[0].Get("percent").Str(), ts.A[0].Get("surcharge").Str()
			}
		}
		// what the line received must also be what the document's tax summary says
		if gotP != "" && v.Get("doc").Get("totals") != nil {
			found := false
			if cats := v.Get("doc").Get("totals").Get("taxes").Get("categories"); cats != nil {
				for _, c := range cats.A {
					if c.Get("code").Str() != op.S || c.Get("rates") == nil {
						continue
					}
					for _, r := range c.Get("rates").A {
						if r.Get("percent").Str() == gotP && r.Get("surcharge").Get("percent").Str() == gotS {
							found = true
						}
					}
				}
			}
			if !found {
				x.Violate("summary-row-missing:"+reg.file+":"+op.S+":"+op.S2, "the line received percent %q surcharge %q but the document's tax summary has no row with both\n  regime %s, %s/%s %v, tax date %s", gotP, gotS, reg.file, op.S, op.S2, op.L, D)
			}
		}
		if op.I <= 2 {
			// the issue date written must be the regime-local date of the instant
			got := v.Get("doc").Get("issue_date").Str()
			if got != D {
				x.Violate("issue-date-not-local:"+reg.file, "at %s (%s local, %s UTC) a document without a date was dated %s, expected the regime-local date %s\n  %s", time.Now().In(loc).Format(time.RFC3339), reg.TimeZone, time.Now().UTC().Format(time.RFC3339), got, D, where)
				return
			}
			if time.Now().UTC().Format("2006-01-02") != D {
				x.Probe("clock-local-date-differs-from-utc")
			}
		}
	}
	switch {
	case rate.Exempt:
		if cerr != nil {
			x.Violate("exempt-error:"+reg.file+":"+op.S+":"+op.S2, "exempt rate key refused: %v\n  %s", cerr, where)
		} else if gotP != "" {
			x.Violate("exempt-percent:"+reg.file+":"+op.S+":"+op.S2, "exempt rate key received percent %q\n  %s", gotP, where)
		}
	case len(accept) == 0:
		if cerr == nil {
			x.Violate("guessed-before-first-value:"+reg.file+":"+op.S+":"+op.S2, "no published value is in force on %s, yet the document received percent %q instead of an error\n  %s", D, gotP, where)
		} else {
			x.Probe("date-before-first-value-refused")
		}
	default:
		var exp []string
		ok := false
		for _, v := range accept {
			exp = append(exp, fmt.Sprintf("%s(since %s)%s", v.Percent, v.Since, map[bool]string{true: "+" + v.Surcharge, false: ""}[v.Surcharge != ""]))
			if v.Percent == gotP && v.Surcharge == gotS {
				ok = true
			}
		}
		if cerr != nil {
			kind := "error"
			if D == best {
				kind = "error-on-start-date"
			}
			x.Violate("rate-"+kind+":"+reg.file+":"+op.S+":"+op.S2, "calculation failed (%v) although the published table has a value in force on %s: %v\n  %s", cerr, D, exp, where)
		} else if !ok {
			kind := "wrong-rate"
			if D == best {
				kind = "wrong-rate-on-start-date"
			}
			x.Violate(kind+":"+reg.file+":"+op.S+":"+op.S2, "received percent %q surcharge %q, the published table says %v is in force on %s\n  %s", gotP, gotS, exp, D, where)
		}
	}
}
