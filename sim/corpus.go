package verifsim

import (
	"bytes"
	"encoding/json"
	"fmt"
	"os"
	"path/filepath"
	"runtime/debug"
	"sort"
	"strings"
	"testing"
	"testing/cryptotest"
	"time"

	guuid "github.com/google/uuid"
	"github.com/invopop/gobl"
	"github.com/invopop/gobl/dsig"
	"github.com/invopop/gobl/schema"
	"github.com/invopop/gobl/uuid"
	"github.com/invopop/yaml"
)

// Doc is one corpus document: an example source shipped with the repository,
// loaded and calculated by the tree under test.
type Doc struct {
	Name       string // path without extension, relative to the repo
	Src        []byte // the source as JSON (document or envelope)
	IsEnv      bool   // source is an envelope
	Env        []byte // calculated + validated envelope, compact JSON, fixed head uuid
	Schema     string // document schema id
	Kind       string // last path element of the schema: invoice, order, ...
	Regime     string
	Addons     []string
	Err        string // non-empty if the tree under test could not build it
	PanicStack string // set when building it panicked
}

// Corpus is the set of documents every world draws from.
type Corpus struct {
	Docs     []*Doc
	Valid    []*Doc // those that built
	Invoices []*Doc
	byName   map[string]*Doc
}

// Get returns a document by name.
func (c *Corpus) Get(name string) *Doc { return c.byName[name] }

// theCorpus is the corpus of this process (set by LoadCorpus).
var theCorpus *Corpus

var corpusDirs = []string{"examples", "note/examples", "regimes/common/examples"}

// FixedHeadUUID gives each corpus envelope a stable v7 identifier.
func FixedHeadUUID(i int) uuid.UUID {
	return uuid.UUID(fmt.Sprintf("01900000-%04x-7000-8000-00000000c0de", i))
}

// LoadCorpus reads and builds all example documents.
func LoadCorpus(repo string) (*Corpus, error) {
	pubRepo = repo
	var files []string
	for _, d := range corpusDirs {
		root := filepath.Join(repo, d)
		err := filepath.Walk(root, func(path string, info os.FileInfo, err error) error {
			if err != nil {
				return nil
			}
			if info.IsDir() {
				if info.Name() == "out" {
					return filepath.SkipDir
				}
				return nil
			}
			switch filepath.Ext(path) {
			case ".yaml", ".json":
				files = append(files, path)
			}
			return nil
		})
		if err != nil {
			return nil, err
		}
	}
	sort.Strings(files)
	c := &Corpus{byName: map[string]*Doc{}}
	for i, f := range files {
		rel, _ := filepath.Rel(repo, f)
		d := &Doc{Name: strings.TrimSuffix(rel, filepath.Ext(rel))}
		raw, err := os.ReadFile(f)
		if err != nil {
			return nil, err
		}
		d.Src, err = yaml.YAMLToJSON(raw)
		if err != nil {
			d.Err = "yaml: " + err.Error()
		}
		d.IsEnv = strings.Contains(f, ".env.")
		if d.Err == "" {
			buildDoc(d, i)
		}
		c.Docs = append(c.Docs, d)
		c.byName[d.Name] = d
		if d.Err == "" {
			c.Valid = append(c.Valid, d)
			if d.Kind == "invoice" {
				c.Invoices = append(c.Invoices, d)
			}
		}
	}
	// synthetic variants: members of the document model that no shipped example
	// exercises (floating point coordinates with negative and near-ULP values)
	if base := c.byName["examples/es/invoice-es-es"]; base != nil && base.Err == "" {
		if v, err := ParseJV(base.Src); err == nil {
			root := v
			if root.Get("doc") != nil {
				root = root.Get("doc")
			}
			if sup := root.Get("supplier"); sup != nil && sup.Get("addresses") != nil && len(sup.Get("addresses").A) > 0 {
				sup.Get("addresses").A[0].Set("coords", &JV{K: 'o', M: []JM{{"lat", &JV{K: 'n', S: "40.416775"}}, {"lon", &JV{K: 'n', S: "-3.70379"}}}})
				d := &Doc{Name: "synthetic/es-invoice-coordinates", Src: v.Encode(nil), IsEnv: base.IsEnv}
				buildDoc(d, len(c.Docs))
				c.Docs = append(c.Docs, d)
				c.byName[d.Name] = d
				if d.Err == "" && bytes.Contains(d.Env, []byte("40.416775")) {
					c.Valid = append(c.Valid, d)
					c.Invoices = append(c.Invoices, d)
				}
			}
		}
	}
	// a payment settling several documents whose tax summaries differ in shape (same
	// category and percentage, one with an equivalence surcharge, one without, a second
	// category): exercises the merge of tax summaries, which no shipped example does
	if base := c.byName["examples/es/payment-with-tax"]; base != nil && base.Err == "" {
		if v, err := ParseJV(base.Src); err == nil {
			root := v
			if root.Get("doc") != nil {
				root = root.Get("doc")
			}
			if ls := root.Get("lines"); ls != nil && len(ls.A) == 1 {
				mk := func(i int, rates string) *JV {
					l := ls.A[0].Clone()
					if doc := l.Get("document"); doc != nil {
						doc.Set("code", JStr(fmt.Sprintf("00%d", i+1)))
						doc.Set("currency", JStr("EUR")) // a reference may name its own currency
						doc.Del("uuid")
						if nv, err := ParseJV([]byte(rates)); err == nil {
							doc.Set("tax", nv)
						}
					}
					return l
				}
				// the first referenced document also has a row without percentage
				if t0 := ls.A[0].Get("document").Get("tax"); t0 != nil && t0.Get("categories") != nil && len(t0.Get("categories").A) > 0 {
					if rs := t0.Get("categories").A[0].Get("rates"); rs != nil && rs.K == 'a' {
						rs.A = append(rs.A, &JV{K: 'o', M: []JM{{"key", JStr("exempt")}, {"base", JStr("200.00")}}})
					}
				}
				ls.A = append(ls.A,
					mk(1, `{"categories":[{"code":"VAT","rates":[{"base":"1000.00","percent":"21.0%","surcharge":{"percent":"5.2%"}},{"key":"exempt","base":"50.00"}]}]}`),
					mk(2, `{"categories":[{"code":"VAT","rates":[{"base":"500.00","percent":"10.0%"},{"base":"200.00","percent":"21.0%"},{"key":"exempt","base":"75.00"}]},{"code":"IRPF","retained":true,"rates":[{"base":"700.00","percent":"15.0%"}]}]}`))
				d := &Doc{Name: "synthetic/es-payment-mixed-tax", Src: v.Encode(nil), IsEnv: base.IsEnv}
				buildDoc(d, len(c.Docs))
				c.Docs = append(c.Docs, d)
				c.byName[d.Name] = d
				if d.Err == "" {
					c.Valid = append(c.Valid, d)
				}
			}
		}
	}
	// a corrective invoice whose reference to the preceding document names its
	// currency and carries that document's tax summary
	for _, name := range []string{"examples/es/credit-note-es-es", "examples/es/credit-note-es-es-tbai"} {
		base := c.byName[name]
		if base == nil || base.Err != "" || base.IsEnv {
			continue
		}
		v, err := ParseJV(base.Src)
		if err != nil || v.Get("preceding") == nil || len(v.Get("preceding").A) == 0 || v.Get("preceding").A[0].K != 'o' {
			continue
		}
		pre := v.Get("preceding").A[0]
		pre.Set("currency", JStr("EUR"))
		if tv, err := ParseJV([]byte(`{"categories":[{"code":"VAT","rates":[{"base":"1000.00","percent":"21.0%"},{"key":"exempt","base":"50.00"}]}]}`)); err == nil {
			pre.Set("tax", tv)
		}
		d := &Doc{Name: "synthetic/es-credit-note-preceding-tax", Src: v.Encode(nil)}
		buildDoc(d, len(c.Docs))
		c.Docs = append(c.Docs, d)
		c.byName[d.Name] = d
		if d.Err == "" {
			c.Valid = append(c.Valid, d)
			c.Invoices = append(c.Invoices, d)
		}
		break
	}
	// members no shipped example carries (logos with inline data, online payment
	// instructions, attachments, item identities, substituted lines, telephones,
	// e-mails, a registration): each group is kept only if the tree under test
	// still builds and validates the document with it (inline data is a whole number
	// of 3-byte groups: base64 text without padding has no spare bits, so every
	// altered character is other bytes and not a respelling of the same ones)
	if base := c.byName["examples/es/invoice-es-es"]; base != nil && base.Err == "" && !base.IsEnv {
		if v, err := ParseJV(base.Src); err == nil && v.Get("supplier") != nil && v.Get("lines") != nil && len(v.Get("lines").A) > 0 {
			dig := `{"alg":"sha256","val":"559aead08264d5795d3909718cdd05abd49572e84fe55590eef31a88a08fdffd"}`
			groups := []struct{ at, key, val string }{
				{"supplier", "logos", `[{"label":"logo","url":"https://example.com/logo.png","mime":"image/png","height":128,"width":128,"digest":` + dig + `},{"label":"inline","data":"QUJD","mime":"image/png","digest":` + dig + `}]`},
				{"supplier", "telephones", `[{"label":"office","num":"+34 910 000 000"}]`},
				{"supplier", "emails", `[{"label":"billing","addr":"billing@example.com"}]`},
				{"supplier", "registration", `{"capital":"3000.00","currency":"EUR","office":"Madrid","book":"1","volume":"2","sheet":"3","section":"4","page":"5","entry":"6"}`},
				{"", "attachments", `[{"key":"sales","name":"terms.pdf","url":"https://example.com/terms.pdf","mime":"application/pdf","digest":` + dig + `},{"name":"a.txt","data":"QUJD","mime":"text/csv","description":"inline"}]`},
				{"payment", "instructions", `{"key":"online","detail":"pay on the web","online":[{"key":"portal","label":"Pay now","url":"https://pay.example.com/inv/1"}]}`},
				{"lines/0/item", "identities", `[{"label":"SKU","code":"A-100"},{"key":"gtin","code":"0012345678905"}]`},
				{"lines/0", "substituted", `[{"quantity":"1","item":{"name":"what was ordered","price":"90.00"}}]`},
			}
			get := func(root *JV, at string) *JV {
				cur := root
				if at == "" {
					return cur
				}
				for _, p := range strings.Split(at, "/") {
					if cur == nil {
						return nil
					}
					if cur.K == 'a' {
						if p != "0" || len(cur.A) == 0 {
							return nil
						}
						cur = cur.A[0]
						continue
					}
					nx := cur.Get(p)
					if nx == nil && cur.K == 'o' {
						nx = &JV{K: 'o'}
						cur.Set(p, nx)
					}
					cur = nx
				}
				return cur
			}
			kept := 0
			for _, g := range groups {
				trial := v.Clone()
				obj := get(trial, g.at)
				val, err := ParseJV([]byte(g.val))
				if obj == nil || obj.K != 'o' || err != nil || obj.Get(g.key) != nil {
					continue
				}
				obj.Set(g.key, val)
				t := &Doc{Name: "trial", Src: trial.Encode(nil)}
				buildDoc(t, len(c.Docs))
				if t.Err == "" && bytes.Contains(t.Env, []byte(`"`+g.key+`"`)) {
					v = trial
					kept++
				}
			}
			if kept > 0 {
				d := &Doc{Name: "synthetic/es-invoice-rare-members", Src: v.Encode(nil)}
				buildDoc(d, len(c.Docs))
				if f := os.Getenv("VERIF_CORPUS_DUMP"); f != "" {
					// debugging aid: what the synthetic document came out as
					_ = os.WriteFile(f, []byte(fmt.Sprintf("kept=%d err=%q\n%s\n", kept, d.Err, d.Env)), 0o644)
				}
				c.Docs = append(c.Docs, d)
				c.byName[d.Name] = d
				if d.Err == "" {
					c.Valid = append(c.Valid, d)
					c.Invoices = append(c.Invoices, d)
				}
			}
		}
	}
	// Portuguese documents stored before the move to addons: rate keys such as
	// "exempt+outlay" are migrated when the document is read. No shipped example
	// uses them on its lines.
	if base := c.byName["examples/pt/invoice"]; base != nil && base.Err == "" && !base.IsEnv {
		for n, keys := range [][]string{{"exempt+outlay", "exempt+intrastate-export"}, {"exempt+outlay", "exempt+outlay"}, {"exempt+consignment", "exempt+reverse-charge+b2b"}} {
			v, err := ParseJV(base.Src)
			if err != nil || v.Get("lines") == nil || len(v.Get("lines").A) == 0 {
				break
			}
			ls := v.Get("lines")
			for len(ls.A) < len(keys) {
				ls.A = append(ls.A, ls.A[0].Clone())
			}
			for i, k := range keys {
				ls.A[i].Del("uuid")
				ls.A[i].Set("taxes", &JV{K: 'a', A: []*JV{{K: 'o', M: []JM{{"cat", JStr("VAT")}, {"rate", JStr(k)}}}}})
			}
			d := &Doc{Name: fmt.Sprintf("synthetic/pt-invoice-legacy-rate-keys-%d", n+1), Src: v.Encode(nil)}
			buildDoc(d, len(c.Docs))
			c.Docs = append(c.Docs, d)
			c.byName[d.Name] = d
			if d.Err == "" {
				c.Valid = append(c.Valid, d)
				c.Invoices = append(c.Invoices, d)
			}
		}
	}
	if len(c.Valid) < 10 {
		msg := ""
		for _, d := range c.Docs {
			if d.Err != "" {
				msg += d.Name + ": " + d.Err + "\n"
			}
		}
		return nil, fmt.Errorf("only %d of %d corpus documents could be built by the tree under test:\n%s", len(c.Valid), len(c.Docs), msg)
	}
	theCorpus = c
	addTransplantVariants(c, 36)
	addSchemaVariants(c, 24)
	return c, nil
}

// addSchemaVariants extends the corpus with documents that carry members of the published
// schema which no shipped example (and therefore no transplant) has: a source document plus
// one or two such members at its top level, with sample values of the right kind. Only
// variants the tree under test calculates and validates are kept; the selection is fixed.
func addSchemaVariants(c *Corpus, want int) {
	var base []*Doc
	for _, d := range c.Valid {
		if !d.IsEnv && !strings.HasPrefix(d.Name, "synthetic/") {
			base = append(base, d)
		}
	}
	if len(base) == 0 {
		return
	}
	// which top-level members does no corpus document carry?
	seen := map[string]bool{}
	for _, d := range c.Valid {
		if doc := c04sourceDoc(d); doc != nil && doc.K == 'o' {
			for _, m := range doc.M {
				seen[doc.Get("$schema").Str()+"|"+m.Key] = true
			}
		}
	}
	kept := 0
	for i := 0; i < want*16 && kept < want; i++ {
		d0 := base[(i*5)%len(base)]
		doc := c04sourceDoc(d0)
		if doc == nil || doc.K != 'o' {
			continue
		}
		doc = doc.Clone()
		sm := schemaMembers(doc, "")
		var unseen []string
		for _, k := range SortedKeys(sm) {
			if !seen[doc.Get("$schema").Str()+"|"+k] {
				unseen = append(unseen, k)
			}
		}
		if len(unseen) == 0 {
			continue
		}
		r := RNG(20261004, int64(i), 78)
		k := unseen[r.IntN(len(unseen))]
		val, err := ParseJV([]byte(sm[k][0]))
		if err != nil {
			continue
		}
		doc.Set(k, val)
		d := &Doc{Name: fmt.Sprintf("synthetic/schema-%02d-%s-of-%s", kept, k, strings.ReplaceAll(strings.TrimPrefix(d0.Name, "examples/"), "/", "-")), Src: doc.Encode(nil)}
		buildDoc(d, len(c.Docs))
		if d.Err != "" || d.PanicStack != "" {
			if d.PanicStack != "" {
				c.Docs = append(c.Docs, d)
				c.byName[d.Name] = d
			}
			continue
		}
		c.Docs = append(c.Docs, d)
		c.byName[d.Name] = d
		c.Valid = append(c.Valid, d)
		if d.Kind == "invoice" {
			c.Invoices = append(c.Invoices, d)
		}
		seen[doc.Get("$schema").Str()+"|"+k] = true
		kept++
	}
}

// addTransplantVariants extends the corpus with documents that combine what the
// shipped examples show separately: a source document plus one to three members
// that other source documents carry at the same place (see sourceCatalog). Only
// variants the tree under test calculates and validates are kept. The selection
// is fixed (it does not depend on VERIF_SEED): the corpus is the same in every
// process.
func addTransplantVariants(c *Corpus, want int) {
	base := append([]*Doc{}, c.Valid...)
	if sourceCatalog() == nil || len(base) == 0 {
		return
	}
	kept := 0
	for i := 0; i < want*12 && kept < want; i++ {
		d0 := base[(i*7)%len(base)]
		if d0.IsEnv || strings.HasPrefix(d0.Name, "synthetic/") {
			continue
		}
		doc := c04sourceDoc(d0)
		if doc == nil || doc.K != 'o' {
			continue
		}
		doc = doc.Clone()
		r := RNG(20261003, int64(i), 77)
		n := 0
		for k, m := 0, 1+r.IntN(3); k < m; k++ {
			if applyTransplant(doc, int64(r.IntN(1<<12)), int64(r.IntN(1<<12)), int64(r.IntN(4))) {
				n++
			}
		}
		if n == 0 {
			continue
		}
		d := &Doc{Name: fmt.Sprintf("synthetic/transplant-%02d-of-%s", kept, strings.ReplaceAll(strings.TrimPrefix(d0.Name, "examples/"), "/", "-")), Src: doc.Encode(nil)}
		buildDoc(d, len(c.Docs))
		if d.Err != "" || d.PanicStack != "" {
			if d.PanicStack != "" {
				// a well-formed combination that panics is a finding (C14/corpus reports it)
				c.Docs = append(c.Docs, d)
				c.byName[d.Name] = d
			}
			continue
		}
		// it must be a fixpoint already here, or every world would start from a moving target
		c.Docs = append(c.Docs, d)
		c.byName[d.Name] = d
		c.Valid = append(c.Valid, d)
		if d.Kind == "invoice" {
			c.Invoices = append(c.Invoices, d)
		}
		kept++
	}
}

func buildDoc(d *Doc, i int) {
	defer func() {
		if r := recover(); r != nil {
			d.Err = fmt.Sprintf("panic: %v", r)
			d.PanicStack = string(debug.Stack())
		}
	}()
	var env *gobl.Envelope
	if d.IsEnv {
		env = new(gobl.Envelope)
		if err := json.Unmarshal(d.Src, env); err != nil {
			d.Err = err.Error()
			return
		}
		if err := env.Calculate(); err != nil {
			d.Err = err.Error()
			return
		}
	} else {
		doc := new(schema.Object)
		if err := json.Unmarshal(d.Src, doc); err != nil {
			d.Err = err.Error()
			return
		}
		var err error
		env, err = gobl.Envelop(doc)
		if err != nil {
			d.Err = err.Error()
			return
		}
	}
	env.Head.UUID = FixedHeadUUID(i)
	if err := env.Validate(); err != nil {
		d.Err = err.Error()
		return
	}
	b, err := json.Marshal(env)
	if err != nil {
		d.Err = err.Error()
		return
	}
	d.Env = b
	var m struct {
		Doc struct {
			Schema string   `json:"$schema"`
			Regime string   `json:"$regime"`
			Addons []string `json:"$addons"`
		} `json:"doc"`
	}
	json.Unmarshal(b, &m)
	d.Schema = m.Doc.Schema
	d.Kind = d.Schema[strings.LastIndex(d.Schema, "/")+1:]
	d.Regime = m.Doc.Regime
	d.Addons = m.Doc.Addons
}

// ParseEnv parses envelope bytes into a fresh envelope.
func ParseEnv(b []byte) (*gobl.Envelope, error) {
	env := new(gobl.Envelope)
	if err := json.Unmarshal(b, env); err != nil {
		return nil, err
	}
	return env, nil
}

// ---------------------------------------------------------------------------
// keys: fixed JWK constants (key generation is not reproducible, see DESIGN §3.4)

var keyJWK = []string{
	`{"use":"sig","kty":"EC","kid":"0853422f-ff65-4711-b6e5-1449fa655ca1","crv":"P-256","alg":"ES256","x":"Luu6wjzDyuWTKMQflqDxBGrt8L38X8tNAPPwhDe94tw","y":"P6j8bqCt-aSmHht1Bf7bOQ1O8j3Np9powDxJ2N81058","d":"IU71qctuWeSC06hE5McckZ6TNTZU-kGb2VsuNpahEyc"}`,
	`{"use":"sig","kty":"EC","kid":"4c3cf168-9e1d-4b8c-a476-e6051bfea67b","crv":"P-256","alg":"ES256","x":"mGAERvRsj4weWYL-exX7BR0sM9zGPESy6qQF9Sao3D4","y":"nhbTWq6yBpXaL7xKLNo2HB0tGwy4H4JnMoiGhKxDwHM","d":"JImXaBUbFvb2KdONjkCDsM7Fcl-oRnhlWGR6XiFKaOM"}`,
	`{"use":"sig","kty":"EC","kid":"924500fa-ac7b-4b39-95b6-ec86702f39bc","crv":"P-256","alg":"ES256","x":"gWwUhNB_Ct7RaXNpeUm5-vYCYuhXgtzLdtXPXLmYoKY","y":"E0ehUFHqVmJpHqh8LhO7vu82RMwRPskm6lOblPN_qQI","d":"YsY2XQuhVjAbOF5D5kksX7yn-Qlw_ZJBjtpeWqG1n-U"}`,
}

// PrivKey returns private key i of the pool (fresh object each time).
func PrivKey(i int) *dsig.PrivateKey {
	k := new(dsig.PrivateKey)
	if err := json.Unmarshal([]byte(keyJWK[i%len(keyJWK)]), k); err != nil {
		panic(err)
	}
	return k
}

// PrivKeyJSON returns the JWK text of private key i.
func PrivKeyJSON(i int) string { return keyJWK[i%len(keyJWK)] }

// PubKey returns the public key of pool key i.
func PubKey(i int) *dsig.PublicKey { return PrivKey(i).Public() }

// PubKeyJSON returns the public JWK text of pool key i.
func PubKeyJSON(i int) string {
	b, _ := json.Marshal(PubKey(i))
	return string(b)
}

// ImpostorPubJSON is the public JWK of key `material` carrying the key id of key `kid`:
// a key that merely claims the signer's identity.
func ImpostorPubJSON(material, kid int) string {
	var m map[string]any
	json.Unmarshal([]byte(PubKeyJSON(material)), &m)
	var k map[string]any
	json.Unmarshal([]byte(PubKeyJSON(kid)), &k)
	m["kid"] = k["kid"]
	b, _ := json.Marshal(m)
	return string(b)
}

// PubKeyNoKidJSON is the public JWK of pool key i without a key id.
func PubKeyNoKidJSON(i int) string {
	var m map[string]any
	json.Unmarshal([]byte(PubKeyJSON(i)), &m)
	delete(m, "kid")
	b, _ := json.Marshal(m)
	return string(b)
}

// PublicOnlyAsPrivate is a "private key" object that only holds the public part.
func PublicOnlyAsPrivate(i int) *dsig.PrivateKey {
	k := new(dsig.PrivateKey)
	if err := json.Unmarshal([]byte(PubKeyJSON(i)), k); err != nil {
		panic(err)
	}
	return k
}

// ---------------------------------------------------------------------------
// global state that must be reset per run so that a run is a function of its plan

func resetGlobalState(t *testing.T, p *Plan) {
	resetGoogleUUID()
	guuid.DisableRandPool()
	cryptotest.SetGlobalRandom(t, uint64(p.Seed)*1000003+uint64(p.Run))
}

// Entropy re-seeds the process-wide crypto randomness for operation id, so that
// what an operation draws depends only on which operation it is.
func (x *X) Entropy(opID int) {
	cryptotest.SetGlobalRandom(x.T, uint64(x.P.Seed)*1000003+uint64(x.P.Run)*7919+uint64(opID)+1)
}

// inBubble is set by checks that run inside a synctest bubble.
func (x *X) vnow() int64 {
	if x.Def != nil && x.Def.Bubble {
		return time.Now().UnixNano()
	}
	return 0
}
