// Package verifsim is the deterministic simulation harness for invopop/gobl.
// It is compiled into gobl's own module through `go test -overlay` (see
// /verif/check) so that it can reach internal packages; nothing here is part of
// the shipped library.
package verifsim

import (
	"crypto/sha256"
	"encoding/hex"
	"encoding/json"
	"fmt"
	"math/rand/v2"
	"sort"
	"strings"
)

// Op is one generated operation, fault or environment action of a plan. The
// meaning of the argument fields depends on K; they are plain data so that a
// plan can be written to a replay file, shrunk and executed again without any
// PRNG involved.
type Op struct {
	ID int      `json:"id"`          // stable identity (entropy is keyed by it)
	K  string   `json:"k"`           // kind
	S  string   `json:"s,omitempty"` // string args
	S2 string   `json:"s2,omitempty"`
	S3 string   `json:"s3,omitempty"`
	I  int64    `json:"i,omitempty"` // integer args
	J  int64    `json:"j,omitempty"`
	N  int64    `json:"n,omitempty"`
	B  bool     `json:"b,omitempty"`
	L  []string `json:"l,omitempty"`
}

// Plan is everything that determines one simulated run.
type Plan struct {
	Prop  string            `json:"prop"`
	Check string            `json:"check"` // sub-check (world) inside the property
	Seed  int64             `json:"seed"`
	Run   int64             `json:"run"`
	Knobs map[string]int64  `json:"knobs,omitempty"`
	Str   map[string]string `json:"str,omitempty"`
	Ops   []Op              `json:"ops,omitempty"`
	Sched []int             `json:"sched,omitempty"` // scheduler choices; exhausted => 0
}

// Knob returns a knob with default.
func (p *Plan) Knob(name string, def int64) int64 {
	if v, ok := p.Knobs[name]; ok {
		return v
	}
	return def
}

// Violation is one observed breach of a property.
type Violation struct {
	Prop   string `json:"prop"`
	Check  string `json:"check"`
	Sig    string `json:"sig"`    // stable signature: what kind of thing failed, where
	Detail string `json:"detail"` // human readable
	Step   int    `json:"step"`
}

// Result is what executing a plan yields.
type Result struct {
	Run        int64             `json:"run"`
	Trace      string            `json:"trace"`           // hash of the event log
	SchedHash  string            `json:"sched,omitempty"` // hash of the (task,point) grant sequence
	Shape      string            `json:"shape"`           // plan shape hash (kinds of ops)
	Steps      int               `json:"steps"`
	Faults     map[string]int64  `json:"faults,omitempty"` // fault kinds that actually fired
	Probes     map[string]int64  `json:"probes,omitempty"` // rare conditions reached
	States     []string          `json:"states,omitempty"` // abstract model states visited
	SimTimeS   float64           `json:"simtime_s,omitempty"`
	Nontrivial bool              `json:"nontrivial"`
	Violations []Violation       `json:"violations,omitempty"`
	Infra      string            `json:"infra,omitempty"`   // harness trouble (never a violation)
	Evals      int64             `json:"evals,omitempty"`   // evaluations inside this run (default 1)
	Cases      []string          `json:"cases,omitempty"`   // distinct non-trivial case ids inside this run
	Replan     *Plan             `json:"replan,omitempty"`  // a smaller explicit plan that reproduces the violation
	Slice      string            `json:"slice,omitempty"`   // "k/w/from" of the child process that executed this run
	Outputs    []string          `json:"outputs,omitempty"` // label=hash of what the check recorded for cross-process comparison
	Dump       map[string]string `json:"dump,omitempty"`    // the bytes behind Outputs (plan knob dump=1)
}

// Log is the event log of a run. Its hash is the run's trace hash.
type Log struct {
	h     [32]byte
	n     int
	sched [32]byte
	keep  []string
	Keep  bool
}

// Event appends an event.
func (l *Log) Event(step int, vtime int64, task, point, detail string) {
	s := fmt.Sprintf("%d|%d|%s|%s|%s", step, vtime, task, point, detail)
	x := sha256.Sum256(append(l.h[:], s...))
	l.h = x
	l.n++
	if l.Keep && len(l.keep) < 4000 {
		l.keep = append(l.keep, s)
	}
}

// Grant records a scheduler grant (for the distinct-interleaving measure).
func (l *Log) Grant(task, point string) {
	x := sha256.Sum256(append(l.sched[:], (task + "@" + point)...))
	l.sched = x
}

// Hash of all events so far.
func (l *Log) Hash() string { return hex.EncodeToString(l.h[:8]) }

// SchedHash is the hash of the grant sequence.
func (l *Log) SchedHash() string { return hex.EncodeToString(l.sched[:8]) }

// Lines returns kept event lines.
func (l *Log) Lines() []string { return l.keep }

// H hashes arbitrary bytes to a short hex string.
func H(b []byte) string {
	x := sha256.Sum256(b)
	return hex.EncodeToString(x[:8])
}

// HS hashes strings.
func HS(parts ...string) string { return H([]byte(strings.Join(parts, "\x00"))) }

// RNG derives the generator for a run: one integer decides everything.
func RNG(seed, run int64, stream uint64) *rand.Rand {
	return rand.New(rand.NewPCG(uint64(seed)*0x9E3779B97F4A7C15+uint64(run), stream^0xD1B54A32D192ED03))
}

// Pick returns a uniformly chosen element.
func Pick[T any](r *rand.Rand, xs []T) T { return xs[r.IntN(len(xs))] }

// Chance is true with probability p.
func Chance(r *rand.Rand, p float64) bool { return r.Float64() < p }

// Shape computes the plan-shape hash.
func (p *Plan) Shape() string {
	var sb strings.Builder
	sb.WriteString(p.Check)
	for _, o := range p.Ops {
		sb.WriteByte('|')
		sb.WriteString(o.K)
	}
	return H([]byte(sb.String()))
}

// JSON renders a plan.
func (p *Plan) JSON() string {
	b, _ := json.Marshal(p)
	return string(b)
}

// Counter is a convenience map counter.
type Counter map[string]int64

// Inc increments.
func (c Counter) Inc(k string) { c[k]++ }

// Add merges.
func (c Counter) Add(o map[string]int64) {
	for k, v := range o {
		c[k] += v
	}
}

// SortedKeys of a map.
func SortedKeys[V any](m map[string]V) []string {
	ks := make([]string, 0, len(m))
	for k := range m {
		ks = append(ks, k)
	}
	sort.Strings(ks)
	return ks
}

// Output records bytes produced by the code under test that must not depend on
// the process that produced them (see CheckDef.CrossProcess).
func (x *X) Output(label string, b []byte) {
	if x.Def == nil || x.Def.CrossProcess == nil || !x.Def.CrossProcess(x.P) {
		return
	}
	x.R.Outputs = append(x.R.Outputs, label+"="+H(b))
	if x.P.Knob("dump", 0) == 1 {
		if x.R.Dump == nil {
			x.R.Dump = map[string]string{}
		}
		x.R.Dump[label] = string(b)
	}
}
