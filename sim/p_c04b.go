package verifsim

import (
	"bytes"
	"encoding/json"
	"fmt"
	"sort"
	"strconv"
	"strings"

	"github.com/invopop/gobl"
	"github.com/invopop/gobl/internal/cli"
	"github.com/invopop/gobl/schema"
)

// check "minimal": the sources the repository ships say more than a caller
// has to. Every example source is presented again with one member left out
// (thorough: also every pair of top-level members): where the calculation
// still succeeds, the durable result restored by a fresh parse and calculated
// again must be the same bytes. What the calculation fills in for an absent
// member (a default type, a currency, a regime, an extension derived from
// another member) must be complete after ONE pass, whatever order the
// normalisers run in.

func init() {
	pd := props["C04"]
	pd.Checks = append(pd.Checks, &CheckDef{
		Name:   "minimal",
		Bubble: true,
		NumRuns: func(c *Ctx) int64 {
			return int64(len(c.Corpus.Valid))
		},
		Plan: func(c *Ctx, run int64) *Plan {
			d := c.Corpus.Valid[run]
			p := &Plan{Prop: "C04", Check: "minimal", Seed: c.Seed, Run: run, Str: map[string]string{"doc": d.Name}}
			v, err := ParseJV(d.Src)
			if err != nil {
				return p
			}
			root := v
			if d.IsEnv && v.Get("doc") != nil {
				root = v.Get("doc")
			}
			limit := 90
			if c.Tier == "thorough" {
				limit = 400
			}
			paths := memberPaths(root, 5, limit)
			id := 0
			for _, pth := range paths {
				id++
				p.Ops = append(p.Ops, Op{ID: id, K: "omit", S: pth})
			}
			if c.Tier == "thorough" && root.K == 'o' {
				for i := 0; i < len(root.M); i++ {
					for j := i + 1; j < len(root.M); j++ {
						id++
						p.Ops = append(p.Ops, Op{ID: id, K: "omit", S: "/" + root.M[i].Key, S2: "/" + root.M[j].Key})
					}
				}
			}
			return p
		},
		Exec:       execC04minimal,
		Exhaustive: func(c *Ctx) bool { return true },
	})
	pd.RequiredProbes = append(pd.RequiredProbes, "minimal-source-calculated-twice")
}

// memberPaths lists the members of a JSON value by path, following only the
// first element of every array, in document order.
func memberPaths(v *JV, depth, limit int) []string {
	var out []string
	var walk func(v *JV, at string, d int)
	walk = func(v *JV, at string, d int) {
		if v == nil || d == 0 || len(out) >= limit {
			return
		}
		switch v.K {
		case 'o':
			for _, m := range v.M {
				if len(out) >= limit {
					return
				}
				if at == "" && m.Key == "$schema" {
					continue
				}
				out = append(out, at+"/"+m.Key)
			}
			for _, m := range v.M {
				walk(m.V, at+"/"+m.Key, d-1)
			}
		case 'a':
			if len(v.A) > 0 {
				walk(v.A[0], at+"/0", d)
			}
		}
	}
	walk(v, "", depth)
	return out
}

// delPath removes the member a path names; false when it is not there.
func delPath(root *JV, path string) bool {
	parts := strings.Split(strings.TrimPrefix(path, "/"), "/")
	cur := root
	for i, p := range parts {
		if cur == nil {
			return false
		}
		last := i == len(parts)-1
		switch cur.K {
		case 'o':
			if last {
				return cur.Del(p)
			}
			cur = cur.Get(p)
		case 'a':
			n, err := strconv.Atoi(p)
			if err != nil || n < 0 || n >= len(cur.A) || last {
				return false
			}
			cur = cur.A[n]
		default:
			return false
		}
	}
	return false
}

// calcSource builds an envelope from a source the way a caller would.
func calcSource(src []byte, isEnv bool) (env *gobl.Envelope, err error, panicked string) {
	panicked = safely(func() {
		if isEnv {
			env = new(gobl.Envelope)
			if err = json.Unmarshal(src, env); err != nil {
				return
			}
			err = env.Calculate()
			return
		}
		doc := new(schema.Object)
		if err = json.Unmarshal(src, doc); err != nil {
			return
		}
		env, err = gobl.Envelop(doc)
	})
	return
}

func execC04minimal(x *X) {
	d := x.C.Corpus.Get(x.P.Str["doc"])
	if d == nil {
		x.R.Infra = "corpus document missing"
		return
	}
	for i, op := range x.P.Ops {
		v, err := ParseJV(d.Src)
		if err != nil {
			return
		}
		root := v
		if d.IsEnv && v.Get("doc") != nil {
			root = v.Get("doc")
		}
		if !delPath(root, op.S) {
			continue
		}
		what := op.S
		if op.S2 != "" {
			if !delPath(root, op.S2) {
				continue
			}
			what += " and " + op.S2
		}
		x.Case(d.Name + "|omit|" + what)
		env, err, pan := calcSource(v.Encode(nil), d.IsEnv)
		if pan != "" || err != nil || env == nil {
			x.Probe("minimal-source-refused")
			x.Step(i, "slot", "omit", what+"|refused")
			continue
		}
		var first []byte
		if p := safely(func() { first = Marshal(env) }); p != "" || first == nil {
			continue
		}
		// restart: only the durable bytes survive
		env2, err := ParseEnv(first)
		if err != nil {
			x.Violate("minimal:unreadable/"+d.Kind, "%s without %s calculates, but the serialised result cannot be read back: %v", d.Name, what, err)
			continue
		}
		x.Fault("restart")
		var cerr error
		if p := safely(func() { cerr = env2.Calculate() }); p != "" {
			x.Violate("minimal:recalc-panics/"+d.Kind, "%s without %s calculates, calculating the restored result panics: %s", d.Name, what, trunc(p, 200))
			continue
		}
		if cerr != nil {
			x.Violate("minimal:recalc-fails/"+d.Kind+":"+errKey(cerr), "%s without %s calculates, calculating the restored result fails: %v", d.Name, what, cerr)
			continue
		}
		second := Marshal(env2)
		x.Probe("minimal-source-calculated-twice")
		if !bytes.Equal(first, second) {
			x.Violate("minimal:"+GDiff(first, second)+"/"+d.Kind, "%s with %s left out of the source calculates, but calculating the restored result changes it; %s", d.Name, what, DiffDetail(first, second))
		}
		x.Step(i, "slot", "omit", what+"|"+H(second))
	}
}

var _ = fmt.Sprintf

// check "typenames": the command line accepts a short type name where a
// document does not say what it is. Which schema a name stands for must not
// depend on the process or the repetition (several types share a short name).
func init() {
	pd := props["C04"]
	pd.Checks = append(pd.Checks, &CheckDef{
		Name:    "typenames",
		NumRuns: func(c *Ctx) int64 { return 1 },
		Plan: func(c *Ctx, run int64) *Plan {
			return &Plan{Prop: "C04", Check: "typenames", Seed: c.Seed, Run: run, Ops: []Op{{ID: 1, K: "names"}}}
		},
		Exec:         execC04typenames,
		CrossProcess: func(p *Plan) bool { return true },
		Exhaustive:   func(c *Ctx) bool { return true },
	})
}

func execC04typenames(x *X) {
	seen := map[string]bool{}
	var terms []string
	for typ, id := range schema.Types() {
		for _, t := range []string{typ.Name(), pathBase(typ.PkgPath()) + "." + typ.Name(), string(id)} {
			if !seen[t] {
				seen[t] = true
				terms = append(terms, t)
			}
		}
	}
	sort.Strings(terms)
	for _, t := range terms {
		first := cli.FindType(t)
		x.Case("typename|" + t)
		for i := 0; i < 24; i++ {
			if got := cli.FindType(t); got != first {
				x.Violate("typename-varies", "the type name %q stands for %s at one time and for %s at another in the same process", t, first, got)
				break
			}
		}
		x.Output(t, []byte(first))
	}
	x.Probe("type-names-resolved")
	x.Step(0, "slot", "names", fmt.Sprint(len(terms)))
}

func pathBase(p string) string {
	if i := strings.LastIndex(p, "/"); i >= 0 {
		return p[i+1:]
	}
	return p
}
