package verifsim

import (
	"bytes"
	"fmt"
	"os"
	"path/filepath"
	"sort"
	"strconv"
	"strings"
	"sync"

	"github.com/invopop/gobl/c14n"
)

// C07 — canonical JSON: the clauses with a stream in them. The canonicaliser
// reads an io.Reader token by token; its result must not depend on how bytes
// arrive, and a stream that ends early, fails, or continues past one value must
// be rejected rather than canonicalised as if complete.

// ---------------------------------------------------------------------------
// reference canonicaliser, written from c14n/README.md

func refCanon(v *JV) ([]byte, bool) {
	var b bytes.Buffer
	ok := refCanonTo(&b, v)
	return b.Bytes(), ok
}

// refCanonTo writes the canonical form; ok=false means "not asserted" (a
// number whose canonical float form depends on binary rounding).
func refCanonTo(b *bytes.Buffer, v *JV) bool {
	ok := true
	switch v.K {
	case 'o':
		ms := make([]JM, 0, len(v.M))
		for _, m := range v.M {
			if m.V.K != 'z' { // rule 4: members whose value is null are removed
				ms = append(ms, m)
			}
		}
		sort.SliceStable(ms, func(i, j int) bool { return ms[i].Key < ms[j].Key }) // rule 3 (UTF-8 byte order = code point order)
		b.WriteByte('{')
		for i, m := range ms {
			if i > 0 {
				b.WriteByte(',')
			}
			refString(b, m.Key)
			b.WriteByte(':')
			if !refCanonTo(b, m.V) {
				ok = false
			}
		}
		b.WriteByte('}')
	case 'a':
		b.WriteByte('[')
		for i, e := range v.A {
			if i > 0 {
				b.WriteByte(',')
			}
			if !refCanonTo(b, e) { // rule 5: nulls in arrays stay
				ok = false
			}
		}
		b.WriteByte(']')
	case 's':
		refString(b, v.S)
	case 'n':
		if !refNumber(b, v.S) {
			ok = false
		}
	case 't':
		b.WriteString("true")
	case 'f':
		b.WriteString("false")
	default:
		b.WriteString("null")
	}
	return ok
}

func refString(b *bytes.Buffer, s string) {
	b.WriteByte('"')
	for _, r := range s {
		switch r {
		case '"':
			b.WriteString(`\"`)
		case '\\':
			b.WriteString(`\\`)
		case '\b':
			b.WriteString(`\b`)
		case '\t':
			b.WriteString(`\t`)
		case '\n':
			b.WriteString(`\n`)
		case '\f':
			b.WriteString(`\f`)
		case '\r':
			b.WriteString(`\r`)
		default:
			if r < 0x20 {
				fmt.Fprintf(b, `\u%04X`, r)
			} else {
				b.WriteRune(r)
			}
		}
	}
	b.WriteByte('"')
}

// refNumber: integers (no fraction, no exponent, fits int64) plain; everything
// else in normalised exponent form d.ddd…E[-]x computed from the decimal text.
func refNumber(b *bytes.Buffer, s string) bool {
	if !strings.ContainsAny(s, ".eE") {
		if n, err := strconv.ParseInt(s, 10, 64); err == nil {
			b.WriteString(strconv.FormatInt(n, 10)) // "-0" → "0"
			return true
		}
	}
	// decimal text → sign, digits, exponent
	neg := strings.HasPrefix(s, "-")
	t := strings.TrimPrefix(s, "-")
	exp := 0
	if i := strings.IndexAny(t, "eE"); i >= 0 {
		e, err := strconv.Atoi(strings.TrimPrefix(t[i+1:], "+"))
		if err != nil {
			return false
		}
		exp = e
		t = t[:i]
	}
	intp, frac := t, ""
	if i := strings.IndexByte(t, '.'); i >= 0 {
		intp, frac = t[:i], t[i+1:]
	}
	digits := intp + frac
	exp += len(intp) - 1
	// strip leading zeros
	for len(digits) > 1 && digits[0] == '0' {
		digits = digits[1:]
		exp--
	}
	digits = strings.TrimRight(digits, "0")
	if digits == "" {
		// zero: 0.0E0 (sign of zero is not asserted)
		b.WriteString("0.0E0")
		return !neg
	}
	if len(digits) > 15 {
		return false // binary rounding decides the digits; not asserted
	}
	if neg {
		b.WriteByte('-')
	}
	b.WriteByte(digits[0])
	b.WriteByte('.')
	if len(digits) > 1 {
		b.WriteString(digits[1:])
	} else {
		b.WriteByte('0')
	}
	b.WriteByte('E')
	b.WriteString(strconv.Itoa(exp))
	return true
}

// ---------------------------------------------------------------------------

type c07text struct {
	name string
	data []byte
}

var (
	c07mu    sync.Mutex
	c07texts []c07text
)

// texts the system itself produces or publishes.
func c07corpus(c *Ctx) []c07text {
	c07mu.Lock()
	defer c07mu.Unlock()
	if c07texts != nil {
		return c07texts
	}
	var out []c07text
	for _, d := range c.Corpus.Valid {
		out = append(out, c07text{"env:" + d.Name, d.Env})
		if v, err := ParseJV(d.Env); err == nil {
			out = append(out, c07text{"doc:" + d.Name, v.Get("doc").Encode(&EncStyle{Indent: "\t"})})
		}
	}
	for _, dir := range []string{"data/regimes", "data/addons", "data/schemas/bill", "data/schemas/tax", "data/schemas/org"} {
		files, _ := filepath.Glob(filepath.Join(c.Repo, dir, "*.json"))
		sort.Strings(files)
		for _, f := range files {
			b, err := os.ReadFile(f)
			if err != nil {
				continue
			}
			if _, err := ParseJV(b); err != nil {
				continue
			}
			rel, _ := filepath.Rel(c.Repo, f)
			out = append(out, c07text{"file:" + rel, b})
		}
	}
	// hand-made small texts that exercise the number and string forms inside a stream
	for i, s := range []string{
		`{"foo":"bar","c":123.4,"a":56,"b":0.0,"y":null}`,
		`{"z":null,"a":[null,1,-0,1.5e3,0.001,"x\u0000y","tab\there","é","😀"],"b":{"y":null,"x":true}}`,
		`[1,2,{"k":[{"deep":{"er":[[],{}]}}]}]`,
		`{"":1,"a":{"":null},"é":"\/","A":false}`,
		`  {"neg":-12.50,"big":9007199254740993,"exp":1E+2,"small":-1e-7}  `,
		`"just a string"`, `42`, `-0.0`, `true`, `null`, `[]`, `{}`,
		// member order is by code point, not by UTF-16 code unit: supplementary-plane keys sort after U+E000..U+FFFF
		"{\"\U0001F600\":2,\"\uFF21\":1,\"a\U00010000b\":3,\"a\uE000b\":4,\"\u007f\":5,\"\u0080\":6,\"Z\":7,\"\":8}",
		"[{\"b\":[1,2],\"a\":[[1,2],{\"a\":1}]},[[1,2]],[{\"a\":1}],[]]",
		// sorting must reach objects at any depth, also below arrays of arrays
		`[[{"b":1,"a":2,"c":[[{"z":1,"y":2,"x":[[[{"q":1,"p":2}]]]}]]}],[[[{"n":null,"m":1,"l":2}]]]]`,
		// keys that differ only by trailing NUL characters, empty key, keys longer than 8 bytes with a common prefix
		"{\"ab\\u0000\":2,\"ab\":1,\"\":0,\"\\u0000\":3,\"abcdefg\\u0000\":4,\"abcdefg\":5,\"abcdefgh\\u0000\":6,\"abcdefgh\":7,\"abcdefghi\":8,\"abcdefgh\\u0001\":9}",
		// every control character, DEL, a surrogate pair and the characters other encoders escape
		"{\"ctl\":\"\\u0001\\u0002\\u0007\\b\\t\\n\\u000b\\f\\r\\u000e\\u001f\\u007f\",\"sp\":\"\\ud83d\\ude00\",\"html\":\"<>&'\\u2028\\u2029/\"}",
		`{"n":[0,-0,1,-1,10,100,1e0,1E1,1e+2,1.0,1.10,0.1e1,-0.001,12345.678e-3,1e21,1E-7,9223372036854775807,-9223372036854775808,9223372036854775808,0.000001,123.456e3]}`,
	} {
		out = append(out, c07text{fmt.Sprintf("lit:%d", i), []byte(s)})
	}
	// member names that need escapes sort by the characters they stand for, not by their escaped spelling
	out = append(out, c07text{"lit:escaped-keys", []byte("{\"aXb\":2,\"a\\\"b\":1,\"A\":3,\"0\":2,\"\\n\":1,\"a\\\\b\":4,\"a\\u0001b\":5,\"a\\tb\":6,\"a b\":7,\"\\u001f\":8,\" \":9}")})
	// every exponent a double can carry, of either sign, with one, three and two mantissa digits
	{
		var sb strings.Builder
		sb.WriteString(`{"exp":[`)
		for e := -307; e <= 307; e++ {
			if e > -307 {
				sb.WriteByte(',')
			}
			fmt.Fprintf(&sb, "1e%d,1.25E%d,-3.5e%+d", e, e, e)
		}
		sb.WriteString(`]}`)
		out = append(out, c07text{"lit:exponents", []byte(sb.String())})
	}
	// numbers no 64-bit type can hold: rejecting them is fine, turning them into something else is not
	out = append(out, c07text{"overflow:0", []byte(`{"a":1e400,"b":[1E+999,-1e400],"c":1}`)})
	// and numbers too small to be told from zero
	out = append(out, c07text{"overflow:1", []byte(`{"a":1e-400,"b":[0,0.0],"c":1}`)})
	out = append(out, c07text{"overflow:2", []byte(`[-2.5E-999]`)})
	c07texts = out
	return out
}

var c07modes = []string{"chunks", "eof", "err", "trailing", "reencode"}

func init() {
	register(&PropDef{
		ID:    "C07",
		Level: "fault_enumeration",
		Rule: "for every JSON text the system produces or publishes (corpus envelopes and documents, published regime/addon/schema files, a few literals): (chunks) every chunking regime incl. 1-byte reads and zero-length reads must give the whole-buffer result; (eof) the stream ends after n bytes for every n < len (exhaustive for texts ≤ 4 KiB, 512 seeded offsets above; quick 64) and must be rejected unless the prefix is itself one complete value; (err) the reader fails after n bytes → error, never output; (trailing) whitespace after the value is accepted, anything else is rejected; empty and whitespace-only streams are rejected without panic; (reencode) content-preserving transport re-encodings (member order, whitespace, escape style, null members added first/last) give identical canonical bytes, which equal the reference canonicaliser's and canonicalise to themselves; " +
			"a case is (text, fault kind, position/seed); all are non-trivial",
		Assumptions: []string{
			"only the clauses of C07 with an I/O dimension are decided here (arrival pattern, truncation, failure, trailing data, transport re-encoding); the number/escape tables are a pure function and are checked only on the texts above against a reference canonicaliser written from c14n/README.md",
			"the reference canonicaliser does not assert floats with more than 15 significant digits nor the sign of zero",
		},
		RequiredProbes: []string{"truncated-inside-string", "truncated-between-members", "null-member-sorted-first", "one-byte-reads"},
		Checks: []*CheckDef{{
			Name:       "stream",
			NumRuns:    func(c *Ctx) int64 { return int64(len(c07corpus(c)) * len(c07modes)) },
			Plan:       planC07,
			Exec:       execC07,
			Exhaustive: func(c *Ctx) bool { return false },
		}},
	})
}

func planC07(c *Ctx, run int64) *Plan {
	texts := c07corpus(c)
	t := texts[int(run)/len(c07modes)]
	mode := c07modes[int(run)%len(c07modes)]
	r := RNG(c.Seed, run, 7)
	p := &Plan{Prop: "C07", Check: "stream", Seed: c.Seed, Run: run, Str: map[string]string{"text": t.name, "mode": mode}}
	n := len(t.data)
	id := 0
	mk := func(o Op) { id++; o.ID = id; p.Ops = append(p.Ops, o) }
	switch mode {
	case "chunks":
		for _, k := range []int64{1, 2, 3, 7, 64, 511, 4096} {
			mk(Op{K: "chunk", I: k})
			mk(Op{K: "chunk", I: k, J: int64(2 + r.IntN(3))})
		}
		mk(Op{K: "chunk", I: 0, L: []string{"1", "5", "2", "64", "3"}})
	case "eof":
		limit := 4096
		samples := 512
		if c.Tier != "thorough" {
			limit, samples = 192, 64
		}
		if n <= limit {
			mk(Op{K: "eof-range", I: 0, J: int64(n), N: 1})
		} else {
			for i := 0; i < samples; i++ {
				mk(Op{K: "eof", I: int64(r.IntN(n))})
			}
			// and the last bytes exhaustively: "one byte before the closing brace"
			mk(Op{K: "eof-range", I: int64(n - 24), J: int64(n), N: 1})
		}
	case "err":
		for i := 0; i < 12; i++ {
			mk(Op{K: "err", I: int64(r.IntN(n + 1)), B: i%2 == 0})
		}
		mk(Op{K: "err", I: int64(n), B: true}) // all data delivered, then failure instead of EOF
		mk(Op{K: "err", I: 0})
		for i := 0; i < 6; i++ {
			mk(Op{K: "badutf8", I: int64(r.IntN(n)), J: int64(r.IntN(4))})
		}
	case "trailing":
		for _, s := range []string{" ", "\n\n\t ", "x", " xyz", "{}", " 1", "]", "}", ",", "null", "\x00"} {
			mk(Op{K: "trailing", S: s})
		}
		mk(Op{K: "empty", S: ""})
		mk(Op{K: "empty", S: "   \n\t"})
	case "reencode":
		k := 6
		if c.Tier == "thorough" {
			k = 20
		}
		for i := 0; i < k; i++ {
			mk(Op{K: "reencode", I: int64(r.Uint32()), B: i%2 == 1})
		}
	}
	return p
}

func canonVia(rd *SimReader) (out []byte, err error, panicked string) {
	panicked = safely(func() { out, err = c14n.CanonicalJSON(rd) })
	return
}

func execC07(x *X) {
	var t *c07text
	for i := range c07corpus(x.C) {
		if c07texts[i].name == x.P.Str["text"] {
			t = &c07texts[i]
		}
	}
	if t == nil {
		x.R.Infra = "text missing: " + x.P.Str["text"]
		return
	}
	tree, err := ParseJV(t.data)
	if err != nil {
		x.R.Infra = "text is not JSON: " + t.name
		return
	}
	whole, werr, wp := canonVia(NewSimReader(nil, "whole", t.data))
	if strings.HasPrefix(t.name, "overflow:") && wp == "" && werr != nil {
		x.Probe("overflowing-number-rejected")
		x.Case(t.name + "|rejected")
		return
	}
	if wp != "" || werr != nil {
		x.Violate("whole:error", "canonicalising a complete valid text %s failed: %v %s", t.name, werr, wp)
		return
	}
	// byte-for-byte against the reference, and idempotence
	if ref, ok := refCanon(tree); ok && !bytes.Equal(ref, whole) {
		x.Violate("reference-mismatch:"+GDiff(ref, whole), "canonical form of %s differs from the reference canonicaliser written from the specification; %s\n  got  %s\n  want %s", t.name, DiffDetail(ref, whole), trunc(string(whole), 300), trunc(string(ref), 300))
		return
	}
	if again, err, p := canonVia(NewSimReader(nil, "again", whole)); p != "" || err != nil || !bytes.Equal(again, whole) {
		x.Violate("not-idempotent", "canonical form of %s does not canonicalise to itself (err=%v %s)", t.name, err, p)
		return
	}
	trimmedLen := len(bytes.TrimRight(t.data, " \t\r\n"))
	checkEOF := func(n int, step int) bool {
		rd := NewSimReader(x, "torn", t.data)
		rd.EOFAt = n
		out, err, p := canonVia(rd)
		x.Case(fmt.Sprintf("%s|eof|%d", t.name, n))
		x.Fault("torn-eof")
		// is the prefix itself one complete value (followed only by whitespace)?
		_, perr := ParseJV(t.data[:n])
		complete := perr == nil
		if n >= trimmedLen {
			complete = true
		}
		cls := c07class(t.data, n)
		x.Probe("truncated-" + cls)
		switch {
		case p != "":
			x.Violate("eof:panic:"+cls, "stream of %s ending after %d of %d bytes made the canonicaliser panic: %s", t.name, n, len(t.data), p)
		case complete && err != nil:
			x.Violate("eof:rejects-complete", "stream of %s ending after %d bytes holds one complete value but was rejected: %v", t.name, n, err)
		case !complete && err == nil:
			x.Violate("eof:accepts-truncated:"+cls, "stream of %s ended after %d of %d bytes (%s) and was canonicalised as if complete: %s", t.name, n, len(t.data), cls, trunc(string(out), 160))
			x.R.Replan = &Plan{Prop: "C07", Check: "stream", Seed: x.P.Seed, Run: x.P.Run, Str: x.P.Str, Ops: []Op{{ID: 1, K: "eof", I: int64(n)}}}
		default:
			return true
		}
		return false
	}
	for i, op := range x.P.Ops {
		switch op.K {
		case "chunk":
			rd := NewSimReader(x, "chunked", t.data)
			if op.I > 0 {
				rd.Chunks = []int{int(op.I)}
			}
			rd.EOFWithData = op.ID%2 == 0
			rd.ZeroFirst = op.J > 0 && op.ID%3 == 0
			for _, s := range op.L {
				n, _ := strconv.Atoi(s)
				rd.Chunks = append(rd.Chunks, n)
			}
			rd.Zero = int(op.J)
			out, err, p := canonVia(rd)
			x.Case(fmt.Sprintf("%s|chunk|%d|%d|%v", t.name, op.I, op.J, op.L))
			if op.I == 1 {
				x.Probe("one-byte-reads")
			}
			if p != "" || err != nil || !bytes.Equal(out, whole) {
				x.Violate("chunks:differs", "%s delivered in chunks of %d (zero-read cadence %d) gave err=%v %s and a result %s the whole-buffer result", t.name, op.I, op.J, err, p, map[bool]string{true: "equal to", false: "different from"}[bytes.Equal(out, whole)])
			}
		case "eof":
			checkEOF(int(op.I), i)
		case "eof-range":
			from := int(op.I)
			if from < 0 {
				from = 0
			}
			for n := from; n < int(op.J) && n < len(t.data); n += int(op.N) {
				if !checkEOF(n, i) {
					break
				}
			}
		case "err":
			rd := NewSimReader(x, "failing", t.data)
			rd.ErrAt = int(op.I)
			rd.ErrWithData = op.B
			out, err, p := canonVia(rd)
			x.Case(fmt.Sprintf("%s|err|%d|%v", t.name, op.I, op.B))
			if p != "" {
				x.Violate("err:panic", "reader failing after %d bytes made the canonicaliser panic: %s", op.I, p)
			} else if err == nil {
				x.Violate("err:swallowed", "the reader of %s failed after %d of %d bytes with an I/O error, yet a canonical form was returned (%d bytes)", t.name, op.I, len(t.data), len(out))
			}
		case "badutf8":
			// one byte inside a string (value or member name) damaged so that the text is no longer valid UTF-8
			pos := -1
			for k := 0; k < len(t.data); k++ {
				j := (int(op.I) + k) % len(t.data)
				if c07class(t.data, j+1) == "inside-string" && t.data[j] != '"' && t.data[j] != '\\' && (j == 0 || t.data[j-1] != '\\') && t.data[j] < 0x80 {
					pos = j
					break
				}
			}
			if pos < 0 {
				break
			}
			data := append([]byte{}, t.data...)
			data[pos] = []byte{0xff, 0xc0, 0x80, 0xed}[op.J%4]
			out, err, p := canonVia(NewSimReader(x, "badutf8", data))
			x.Case(fmt.Sprintf("%s|badutf8|%d|%d", t.name, pos, op.J))
			x.Fault("invalid-utf8-byte")
			if p != "" {
				x.Violate("badutf8:panic", "a text with an invalid UTF-8 byte at offset %d made the canonicaliser panic: %s", pos, p)
			} else if err == nil && bytes.Equal(out, whole) {
				// the damaged bytes sat in a member that is dropped anyway (null value): nothing of
				// the damage reaches the canonical form
				x.Probe("invalid-utf8-in-dropped-member")
			} else if err == nil {
				x.Violate("badutf8:accepted", "%s with byte %d replaced by 0x%02x is not valid UTF-8, yet it was canonicalised (%d bytes): the damaged character was silently replaced", t.name, pos, data[pos], len(out))
			}
		case "trailing":
			data := append(append([]byte{}, t.data...), op.S...)
			out, err, p := canonVia(NewSimReader(x, "trailing", data))
			x.Case(fmt.Sprintf("%s|trailing|%q", t.name, op.S))
			x.Fault("trailing-bytes")
			ws := strings.TrimSpace(op.S) == ""
			switch {
			case p != "":
				x.Violate("trailing:panic", "trailing bytes %q made the canonicaliser panic: %s", op.S, p)
			case ws && (err != nil || !bytes.Equal(out, whole)):
				x.Violate("trailing:whitespace-rejected", "trailing whitespace %q changed the outcome: err=%v", op.S, err)
			case !ws && err == nil:
				x.Violate("trailing:accepted", "a stream holding %s followed by %q is not one complete JSON value, yet it was canonicalised (the trailing bytes were ignored)", t.name, op.S)
			}
		case "empty":
			out, err, p := canonVia(NewSimReader(x, "empty", []byte(op.S)))
			x.Case(fmt.Sprintf("empty|%q", op.S))
			x.Fault("empty-stream")
			if p != "" {
				x.Violate("empty:panic", "an empty/whitespace-only stream made the canonicaliser panic: %s", p)
			} else if err == nil {
				x.Violate("empty:accepted", "an empty/whitespace-only stream was canonicalised to %q", out)
			}
		case "reencode":
			r := RNG(op.I, 0, 77)
			st := &EncStyle{R: r, Shuffle: true, Space: true, Escapes: true, AddNulls: op.B}
			re := tree.Encode(st)
			if op.B && bytes.Contains(re, []byte(`"!zz_null`)) {
				x.Probe("null-member-sorted-first")
			}
			rd := NewSimReader(x, "reencoded", re)
			rd.Chunks = []int{1 + r.IntN(97)}
			out, err, p := canonVia(rd)
			x.Case(fmt.Sprintf("%s|reencode|%d|%v", t.name, op.I, op.B))
			x.Fault("re-encode")
			if p != "" || err != nil {
				x.Violate("reencode:error", "a content-preserving re-encoding of %s was rejected: %v %s\n  input: %s", t.name, err, p, trunc(string(re), 300))
			} else if !bytes.Equal(out, whole) {
				kind := "differs"
				if _, perr := ParseJV(out); perr != nil {
					kind = "invalid-json"
				}
				x.Violate("reencode:"+kind, "a content-preserving re-encoding (member order, whitespace, escapes, null members=%v) of %s has a different canonical form (%s)\n  got  %s\n  want %s", op.B, t.name, kind, trunc(string(out), 200), trunc(string(whole), 200))
			}
		}
		x.Step(i, "stream", op.K, fmt.Sprint(op.I, op.J, op.S))
		if len(x.R.Violations) > 0 {
			break
		}
	}
}

// c07class names where in the text a truncation offset falls.
func c07class(data []byte, n int) string {
	inStr, esc := false, false
	for i := 0; i < n && i < len(data); i++ {
		c := data[i]
		if inStr {
			if esc {
				esc = false
			} else if c == '\\' {
				esc = true
			} else if c == '"' {
				inStr = false
			}
		} else if c == '"' {
			inStr = true
		}
	}
	if inStr {
		return "inside-string"
	}
	if n == 0 {
		return "at-start"
	}
	// last significant byte before n
	j := n - 1
	for j >= 0 && (data[j] == ' ' || data[j] == '\n' || data[j] == '\t' || data[j] == '\r') {
		j--
	}
	if j < 0 {
		return "at-start"
	}
	switch data[j] {
	case ',':
		return "between-members"
	case ':':
		return "after-colon"
	case '{', '[':
		return "after-open"
	case '}', ']', '"':
		return "between-members"
	}
	return "inside-scalar"
}
