package verifsim

import (
	"crypto/sha256"
	"encoding/binary"
	"encoding/hex"
	"fmt"
	"hash"
	"reflect"
	"sort"
	"strings"
	"unsafe"

	"github.com/invopop/gobl/internal/verifroots"
)

// The shared-state fingerprint: a deep hash of everything reachable from every
// package-level variable of every gobl package (pointers, maps, interfaces,
// unexported fields, and slices up to their capacity, not just their length).
// Definitions are meant to be read-only after init; any change between two
// fingerprints is a write to shared state by the operation in between.

const goblPrefix = "github.com/invopop/gobl"

type fpWalker struct {
	h     hash.Hash
	seen  map[fpKey]int
	nodes int
	spare int
}

type fpKey struct {
	p uintptr
	t reflect.Type
}

func (w *fpWalker) str(s string) { w.h.Write([]byte(s)); w.h.Write([]byte{0}) }
func (w *fpWalker) u64(u uint64) {
	var b [8]byte
	binary.LittleEndian.PutUint64(b[:], u)
	w.h.Write(b[:])
}

func opaque(t reflect.Type) bool {
	if t.Kind() != reflect.Struct {
		return false
	}
	p := t.PkgPath()
	if p == "" {
		return false
	}
	return !strings.HasPrefix(p, goblPrefix)
}

// clean returns an addressable, flag-free view of v (needed to read unexported fields).
func clean(v reflect.Value) reflect.Value {
	if v.CanAddr() {
		return reflect.NewAt(v.Type(), unsafe.Pointer(v.UnsafeAddr())).Elem()
	}
	if v.CanInterface() {
		t := reflect.New(v.Type()).Elem()
		t.Set(v)
		return t
	}
	return v
}

func (w *fpWalker) walk(v reflect.Value, depth int) {
	w.nodes++
	if depth > 200 {
		w.str("(deep)")
		return
	}
	if !v.IsValid() {
		w.str("(invalid)")
		return
	}
	t := v.Type()
	switch v.Kind() {
	case reflect.Bool:
		if v.Bool() {
			w.u64(1)
		} else {
			w.u64(0)
		}
	case reflect.Int, reflect.Int8, reflect.Int16, reflect.Int32, reflect.Int64:
		w.u64(uint64(v.Int()))
	case reflect.Uint, reflect.Uint8, reflect.Uint16, reflect.Uint32, reflect.Uint64, reflect.Uintptr:
		w.u64(v.Uint())
	case reflect.Float32, reflect.Float64:
		w.str(fmt.Sprint(v.Float()))
	case reflect.Complex64, reflect.Complex128:
		w.str(fmt.Sprint(v.Complex()))
	case reflect.String:
		w.str(v.String())
	case reflect.Pointer:
		if v.IsNil() {
			w.str("nil")
			return
		}
		if opaque(t.Elem()) {
			w.str("opaque-ptr")
			w.u64(uint64(v.Pointer())) // identity
			return
		}
		k := fpKey{v.Pointer(), t}
		if n, ok := w.seen[k]; ok {
			w.str("backref")
			w.u64(uint64(n))
			return
		}
		w.seen[k] = len(w.seen)
		w.str("ptr")
		w.walk(clean(v.Elem()), depth+1)
	case reflect.Interface:
		if v.IsNil() {
			w.str("nil-iface")
			return
		}
		e := v.Elem()
		w.str(e.Type().String())
		if opaque(e.Type()) {
			w.str("opaque")
			return
		}
		w.walk(clean(e), depth+1)
	case reflect.Struct:
		if opaque(t) {
			w.str("opaque:" + t.String())
			return
		}
		v = clean(v)
		for i := 0; i < v.NumField(); i++ {
			f := v.Field(i)
			if f.CanAddr() {
				f = reflect.NewAt(f.Type(), unsafe.Pointer(f.UnsafeAddr())).Elem()
			}
			w.walk(f, depth+1)
		}
	case reflect.Slice:
		if v.IsNil() {
			w.str("nil-slice")
			return
		}
		k := fpKey{v.Pointer(), t}
		w.u64(uint64(v.Len()))
		w.u64(uint64(v.Cap()))
		if n, ok := w.seen[k]; ok && v.Len() > 0 {
			w.str("backref")
			w.u64(uint64(n))
			return
		}
		if v.Len() > 0 {
			w.seen[k] = len(w.seen)
		}
		// up to capacity: an append into a shared backing array writes beyond len
		full := v
		if v.Cap() > v.Len() {
			full = v.Slice(0, v.Cap())
			w.spare += v.Cap() - v.Len()
		}
		for i := 0; i < full.Len(); i++ {
			w.walk(clean(full.Index(i)), depth+1)
		}
	case reflect.Array:
		for i := 0; i < v.Len(); i++ {
			w.walk(clean(v.Index(i)), depth+1)
		}
	case reflect.Map:
		if v.IsNil() {
			w.str("nil-map")
			return
		}
		k := fpKey{v.Pointer(), t}
		if n, ok := w.seen[k]; ok {
			w.str("backref")
			w.u64(uint64(n))
			return
		}
		w.seen[k] = len(w.seen)
		w.u64(uint64(v.Len()))
		type ent struct {
			kh string
			v  reflect.Value
		}
		var ents []ent
		it := v.MapRange()
		for it.Next() {
			sub := &fpWalker{h: sha256.New(), seen: map[fpKey]int{}}
			sub.walk(clean(it.Key()), depth+1)
			ents = append(ents, ent{hex.EncodeToString(sub.h.Sum(nil)), it.Value()})
		}
		sort.Slice(ents, func(i, j int) bool { return ents[i].kh < ents[j].kh })
		for _, e := range ents {
			w.str(e.kh)
			w.walk(clean(e.v), depth+1)
		}
	case reflect.Func:
		if v.IsNil() {
			w.str("nil-func")
		} else {
			w.str("func")
			w.u64(uint64(v.Pointer()))
		}
	case reflect.Chan, reflect.UnsafePointer:
		w.str("identity")
		w.u64(uint64(v.Pointer()))
	default:
		w.str("kind:" + v.Kind().String())
	}
}

// Fingerprint is the state of all shared definitions.
type Fingerprint struct {
	Roots map[string]string // "pkg.var" -> hash
	Nodes int
	Spare int
}

// TakeFingerprint hashes every registered package-level variable.
func TakeFingerprint() *Fingerprint {
	fp := &Fingerprint{Roots: map[string]string{}}
	for _, p := range verifroots.All {
		if strings.HasSuffix(p.Path, "/internal/verifsim") || strings.HasSuffix(p.Path, "/internal/verifroots") {
			continue
		}
		for _, r := range p.Roots {
			w := &fpWalker{h: sha256.New(), seen: map[fpKey]int{}}
			func() {
				defer func() {
					if rec := recover(); rec != nil {
						w.str(fmt.Sprint("unwalkable:", rec))
					}
				}()
				w.walk(reflect.ValueOf(r.Ptr).Elem(), 0)
			}()
			fp.Roots[p.Path[len(goblPrefix):]+"."+r.Name] = hex.EncodeToString(w.h.Sum(nil)[:8])
			fp.Nodes += w.nodes
			fp.Spare += w.spare
		}
	}
	return fp
}

// Diff lists the variables whose fingerprint changed.
func (a *Fingerprint) Diff(b *Fingerprint) []string {
	var out []string
	for _, k := range SortedKeys(a.Roots) {
		if b.Roots[k] != a.Roots[k] {
			out = append(out, k)
		}
	}
	for _, k := range SortedKeys(b.Roots) {
		if _, ok := a.Roots[k]; !ok {
			out = append(out, k)
		}
	}
	return out
}
