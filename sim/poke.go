package verifsim

import (
	"reflect"
)

// pokeAll mutates, in place, everything reachable from v through exported fields:
// strings are overwritten, numbers incremented, booleans flipped, map entries
// overwritten and added, slice elements poked and a slot appended into spare
// capacity. It is used to reveal memory shared between two object graphs that are
// supposed to be independent (a corrected document and its source): after poking
// one, the other must serialise exactly as before.
func pokeAll(v reflect.Value, depth int, seen map[uintptr]bool) int {
	if depth > 60 || !v.IsValid() {
		return 0
	}
	n := 0
	switch v.Kind() {
	case reflect.Pointer:
		if v.IsNil() || opaque(v.Type().Elem()) {
			return 0
		}
		if seen[v.Pointer()] {
			return 0
		}
		seen[v.Pointer()] = true
		return pokeAll(v.Elem(), depth+1, seen)
	case reflect.Interface:
		if v.IsNil() {
			return 0
		}
		e := v.Elem()
		if e.Kind() == reflect.Pointer {
			return pokeAll(e, depth+1, seen)
		}
		return 0
	case reflect.Struct:
		if opaque(v.Type()) {
			return 0
		}
		for i := 0; i < v.NumField(); i++ {
			f := v.Field(i)
			if !v.Type().Field(i).IsExported() || !f.CanSet() {
				// unexported fields: descend only through pointers (cannot set)
				continue
			}
			n += pokeAll(f, depth+1, seen)
		}
	case reflect.String:
		if v.CanSet() {
			v.SetString("MUT" + v.String())
			n++
		}
	case reflect.Int, reflect.Int8, reflect.Int16, reflect.Int32, reflect.Int64:
		if v.CanSet() {
			v.SetInt(v.Int() + 1)
			n++
		}
	case reflect.Uint, reflect.Uint8, reflect.Uint16, reflect.Uint32, reflect.Uint64:
		if v.CanSet() {
			v.SetUint(v.Uint() + 1)
			n++
		}
	case reflect.Float32, reflect.Float64:
		if v.CanSet() {
			v.SetFloat(v.Float() + 1)
			n++
		}
	case reflect.Bool:
		if v.CanSet() {
			v.SetBool(!v.Bool())
			n++
		}
	case reflect.Slice:
		if v.IsNil() {
			return 0
		}
		for i := 0; i < v.Len(); i++ {
			n += pokeAll(v.Index(i), depth+1, seen)
		}
		// write into spare capacity too (shared backing arrays)
		if v.Cap() > v.Len() && v.CanSet() {
			full := v.Slice(0, v.Cap())
			for i := v.Len(); i < full.Len(); i++ {
				n += pokeAll(full.Index(i), depth+1, seen)
			}
		}
	case reflect.Array:
		for i := 0; i < v.Len(); i++ {
			n += pokeAll(v.Index(i), depth+1, seen)
		}
	case reflect.Map:
		if v.IsNil() {
			return 0
		}
		if seen[v.Pointer()] {
			return 0
		}
		seen[v.Pointer()] = true
		keys := v.MapKeys()
		for _, k := range keys {
			val := v.MapIndex(k)
			if val.Kind() == reflect.Pointer || val.Kind() == reflect.Map || val.Kind() == reflect.Slice {
				n += pokeAll(val, depth+1, seen)
				continue
			}
			nv := reflect.New(val.Type()).Elem()
			nv.Set(val)
			if pokeAll(nv, depth+1, seen) > 0 {
				v.SetMapIndex(k, nv)
				n++
			}
		}
		// add an entry when keys are strings
		if v.Type().Key().Kind() == reflect.String && (v.Type().Elem().Kind() == reflect.String) {
			k := reflect.New(v.Type().Key()).Elem()
			k.SetString("mut-key")
			e := reflect.New(v.Type().Elem()).Elem()
			e.SetString("mut-val")
			v.SetMapIndex(k, e)
			n++
		}
	}
	return n
}
