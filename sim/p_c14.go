package verifsim

import (
	"bytes"
	"context"
	"encoding/json"
	"fmt"
	"os"
	"path/filepath"
	"regexp"
	"runtime/debug"
	"sort"
	"strings"
	"sync"
	"time"

	"github.com/invopop/gobl"
	"github.com/invopop/gobl/bill"
	"github.com/invopop/gobl/c14n"
	"github.com/invopop/gobl/head"
	"github.com/invopop/gobl/internal/cli"
	"github.com/invopop/gobl/internal/iotools"
	"github.com/invopop/gobl/schema"
)

// C14 — no input crashes or hangs the library or the service; failures are
// structured. World W-STREAM: bytes arrive through streams that tear, stall,
// fail and get cancelled, or were damaged at byte or member level in transit;
// whatever still parses is pushed through the whole operation chain.

var c14keys = map[string]bool{
	"no-document": true, "validation": true, "calculation": true, "marshal": true, "unmarshal": true,
	"signature": true, "digest": true, "internal": true, "unknown-schema": true,
}

const c14block = 40

func init() {
	register(&PropDef{
		ID:    "C14",
		Level: "fault_enumeration",
		Rule: "for every corpus document, as a calculated envelope and (check sources) as the source its author wrote: member-level transport faults at every JSON pointer (member lost, nulled, retyped, duplicated, array element lost/duplicated, leaf altered, unknown currency/country/regime/addon/schema codes, empty/null/garbage signature entries, header without digest) and byte-level stream faults (torn EOF, read error, stall until the context is cancelled, cancellation before the read, bit flips, chunking) through gobl.Parse, json.Unmarshal, c14n and the cli functions Build/Validate/Verify/Sign/Correct/Replicate over simulated readers; whatever parses is calculated, validated, digested, signed, verified, corrected and replicated; plus amplification inputs (nesting depth 100 / 10 000 / 100 000, 1 MiB digit strings) executed in child processes; check 'bulk' interleaves malformed and well-formed requests on scheduler-controlled bulk streams; " +
			"a case is (document, fault kind, pointer/offset, entry point); thorough enumerates all pointers, quick a seeded sample of pointer blocks",
		Assumptions: []string{
			"the arbitrary-bytes input space is covered only as far as these fault operators generate it from real documents (that is fuzzing's ground)",
			"a panic inside a bulk worker kills the child process; the parent attributes it to the plan in flight",
		},
		RequiredProbes: []string{"stall-released-by-cancel", "member-lost-then-full-chain", "unknown-code-substituted", "deep-nesting", "error-keys-checked"},
		Checks: []*CheckDef{
			{
				Name:             "members",
				Bubble:           true,
				NumRuns:          func(c *Ctx) int64 { return int64(len(c14cachedUnits(c, false))) },
				Plan:             planC14members,
				Exec:             execC14,
				CrashIsViolation: true,
				HangIsViolation:  true,
				Exhaustive:       func(c *Ctx) bool { return c.Tier == "thorough" },
			},
			{
				// the same sweep over the documents as their authors wrote them: what the
				// normalisers and scenario code see before a first calculation filled anything in
				Name:             "sources",
				Bubble:           true,
				NumRuns:          func(c *Ctx) int64 { return int64(len(c14cachedUnits(c, true))) },
				Plan:             planC14sources,
				Exec:             execC14,
				CrashIsViolation: true,
				HangIsViolation:  true,
				Exhaustive:       func(c *Ctx) bool { return c.Tier == "thorough" },
			},
			{
				Name:   "streams",
				Bubble: true,
				NumRuns: func(c *Ctx) int64 {
					if c.Tier == "thorough" {
						return int64(len(c.Corpus.Valid)) * 120
					}
					return int64(len(c.Corpus.Valid)) * 6
				},
				Plan:             planC14streams,
				Exec:             execC14,
				CrashIsViolation: true,
				HangIsViolation:  true,
			},
			{
				Name:   "bulk",
				Bubble: true,
				NumRuns: func(c *Ctx) int64 {
					if c.Tier == "thorough" {
						return 20000
					}
					return 300
				},
				Plan:             func(c *Ctx, run int64) *Plan { return planBulk(c, run, "C14", true) },
				Exec:             execBulk,
				CrashIsViolation: true,
				HangIsViolation:  true,
			},
			{
				Name:             "amplify",
				Bubble:           true,
				NumRuns:          func(c *Ctx) int64 { return 14 },
				Plan:             planC14amplify,
				Exec:             execC14,
				CrashIsViolation: true,
				HangIsViolation:  true,
			},
		},
	})
}

func c14units(c *Ctx) []c08unit { return c14unitsOf(c, false) }

// c14tree is what the sweep walks: the calculated envelope, or (sources) the
// document as its author wrote it, before any calculation filled anything in.
func c14tree(d *Doc, src bool) *JV {
	if src {
		return c04sourceDoc(d)
	}
	v, err := ParseJV(d.Env)
	if err != nil {
		return nil
	}
	return v
}

func c14unitsOf(c *Ctx, src bool) []c08unit {
	var all []c08unit
	for _, d := range c.Corpus.Valid {
		v := c14tree(d, src)
		if v == nil {
			continue
		}
		n := len(Walk(v, ""))
		for from := 0; from < n; from += c14block {
			all = append(all, c08unit{d.Name, from, false})
		}
	}
	if c.Tier != "thorough" {
		r := RNG(c.Seed, 0, 14)
		var pick []c08unit
		seen := map[string]bool{}
		pct := 10
		if src {
			pct = 40
			r = RNG(c.Seed, 1, 14)
		}
		for _, u := range all {
			if r.IntN(100) < pct || (!seen[u.doc] && !src) {
				pick = append(pick, u)
				seen[u.doc] = true
			}
		}
		all = pick
	}
	return all
}

var c14unitCache = map[string][]c08unit{}

func planC14members(c *Ctx, run int64) *Plan { return planC14sweep(c, run, false) }
func planC14sources(c *Ctx, run int64) *Plan { return planC14sweep(c, run, true) }

func c14cachedUnits(c *Ctx, src bool) []c08unit {
	key := fmt.Sprintf("%s/%d/%v", c.Tier, c.Seed, src)
	c08mu.Lock()
	defer c08mu.Unlock()
	us, ok := c14unitCache[key]
	if !ok {
		us = c14unitsOf(c, src)
		c14unitCache[key] = us
	}
	return us
}

func planC14sweep(c *Ctx, run int64, src bool) *Plan {
	us := c14cachedUnits(c, src)
	u := us[run]
	d := c.Corpus.Get(u.doc)
	p := &Plan{Prop: "C14", Check: "members", Seed: c.Seed, Run: run, Str: map[string]string{"doc": u.doc}}
	if src {
		p.Check = "sources"
		p.Str["src"] = "1"
	}
	v := c14tree(d, src)
	nodes := Walk(v, "")
	r := RNG(c.Seed, run, 15)
	if src {
		r = RNG(c.Seed, run, 17)
	}
	id := 0
	add := func(k, ptr string, o Op) {
		id++
		o.ID, o.K, o.S = id, k, ptr
		o.J = int64(r.IntN(6)) // which cli entry point also receives it
		p.Ops = append(p.Ops, o)
	}
	to := u.from + c14block
	if to > len(nodes) {
		to = len(nodes)
	}
	if u.from == 0 && !src {
		for _, k := range []string{"empty", "null", "garbage", "number", "object"} {
			add("sigs", "/sigs", Op{S2: k})
		}
		add("remove", "/head/dig", Op{})
		add("remove", "/head", Op{})
		add("remove", "/doc", Op{})
		add("null", "/doc", Op{})
		add("retype", "/doc", Op{I: 1})
		add("code", "/doc/$schema", Op{S2: "https://gobl.org/draft-0/bill/unknown"})
		add("code", "/$schema", Op{S2: "https://example.com/not-gobl"})
		// the same header damage on a SIGNED envelope (verification reads the header)
		for _, k := range []string{"remove", "null", "retype"} {
			add(k, "/head/dig", Op{B: true, I: 1})
			add(k, "/head", Op{B: true, I: 1})
			add(k, "/head/uuid", Op{B: true})
			add(k, "/head/dig/val", Op{B: true})
			add(k, "/head/dig/alg", Op{B: true})
		}
		add("setstr", "/head/uuid", Op{B: true, S2: "not-a-uuid"})
		add("setstr", "/head/uuid", Op{S2: "00000000-0000-0000-0000-000000000000"})
		add("emptyobj", "/head", Op{B: true})
	}
	for _, n := range nodes[u.from:to] {
		if n.Ptr == "" {
			continue
		}
		if n.Parent != nil && n.Parent.K == 'o' {
			add("remove", n.Ptr, Op{})
			add("null", n.Ptr, Op{})
		}
		add("retype", n.Ptr, Op{I: int64(r.IntN(5))})
		switch n.V.K {
		case 's':
			add("alter", n.Ptr, Op{I: int64(r.IntN(1 << 20))})
			add("setstr", n.Ptr, Op{S2: Pick(r, []string{"", " ", "0", "-", "%", "9999999999999999999999", "1e9", "\u0000", "ÿ", "a.b.c", "--1", "1.2.3", "٣", "1." + strings.Repeat("0", 70), "0." + strings.Repeat("0", 30) + "1", "5." + strings.Repeat("0", 64) + "%", "-0", "00012", "1e-400", "9223372036854775807", "92233720368547758.08", "NE(", "(?", "a[b", "x{2,1}", "*", "\\"})})
			if n.Key == "percent" || n.Key == "surcharge" {
				add("setstr", n.Ptr, Op{S2: Pick(r, []string{"-100%", "-100.000%", "-1.00", "100%", "0%", "-0.0%", "1000000%"})})
			}
			if strings.Contains(n.Ptr, "/ext/") {
				// extension values end up in messages, lookups and sometimes patterns
				add("setstr", n.Ptr, Op{S2: Pick(r, []string{"NE(", "(?", "a[b", "x{2,1}", "A*", "\\d"})})
			}
			if n.Key == "code" || n.Key == "ref" || strings.HasSuffix(n.Key, "_code") {
				// identifying codes: the country's own letters where a prefix is not expected, and
				// characters that mean something to a pattern
				cc := v.Get("$regime").Str()
				if cc == "" && v.Get("doc") != nil {
					cc = v.Get("doc").Get("$regime").Str()
				}
				if cc == "" {
					cc = "ES"
				}
				add("setstr", n.Ptr, Op{S2: "AB" + cc + "CD" + cc + "01"})
				add("setstr", n.Ptr, Op{S2: cc + cc + "(" + cc})
			}
			// unknown-code substitution by member name
			switch n.Key {
			case "currency":
				add("code", n.Ptr, Op{S2: Pick(r, []string{"XXX", "ZZZ", "eur", "E", ""})})
			case "country":
				add("code", n.Ptr, Op{S2: Pick(r, []string{"ZZ", "XX", "es", "ESP", ""})})
			case "$regime":
				add("code", n.Ptr, Op{S2: Pick(r, []string{"ZZ", "XX", "", "es"})})
			case "$schema":
				add("code", n.Ptr, Op{S2: Pick(r, []string{"https://gobl.org/draft-0/bill/nothing", "", "x"})})
			case "cat", "rate", "key", "type", "unit":
				add("code", n.Ptr, Op{S2: Pick(r, []string{"unknown-key", "ZZZ", "", "a b"})})
			}
		case 'a':
			if n.Key == "$addons" || n.Key == "$tags" {
				add("code", n.Ptr, Op{S2: "xx-unknown-v1"})
			}
			if len(n.V.A) > 0 {
				add("delelem", n.Ptr, Op{I: int64(r.IntN(len(n.V.A)))})
				add("dupelem", n.Ptr, Op{I: int64(r.IntN(len(n.V.A)))})
				add("emptyarr", n.Ptr, Op{})
				add("nullelem", n.Ptr, Op{I: int64(r.IntN(len(n.V.A)))})
			}
		case 'o':
			add("emptyobj", n.Ptr, Op{})
			if n.Key == "tax_id" {
				// a party of any country: every regime's tax-id rules are reachable from any document
				ccs := regimeCountries(c.Repo)
				for k := 0; k < 3 && len(ccs) > 0; k++ {
					add("taxid", n.Ptr, Op{S2: Pick(r, ccs), S3: Pick(r, []string{"12345678", "1234567", "123456789", "1234567890", "12345678901", "A1234567", "U1234567", "12345678A", "X", "0", "123456789012345"})})
				}
			}
		}
	}
	return p
}

func planC14streams(c *Ctx, run int64) *Plan {
	docs := c.Corpus.Valid
	d := docs[int(run)%len(docs)]
	r := RNG(c.Seed, run, 16)
	p := &Plan{Prop: "C14", Check: "streams", Seed: c.Seed, Run: run, Str: map[string]string{"doc": d.Name}}
	n := len(d.Env)
	for i := 0; i < 10; i++ {
		op := Op{ID: i + 1, K: Pick(r, []string{"eof", "eof", "err", "stall", "cancel-before", "flip", "flip", "chunk", "zero"}), I: int64(r.IntN(n)), J: int64(r.IntN(8)), N: int64(r.IntN(6))}
		if Chance(r, 0.3) {
			// bias: inside the last bytes / right at a structural byte
			op.I = int64(n - 1 - r.IntN(20))
		}
		p.Ops = append(p.Ops, op)
	}
	return p
}

func planC14amplify(c *Ctx, run int64) *Plan {
	p := &Plan{Prop: "C14", Check: "amplify", Seed: c.Seed, Run: run, Str: map[string]string{"doc": "examples/es/invoice-es-es"}}
	kinds := []Op{
		{K: "nest", S: "[", I: 100}, {K: "nest", S: "[", I: 10000}, {K: "nest", S: "[", I: 100000},
		{K: "nest", S: "{", I: 100}, {K: "nest", S: "{", I: 10000}, {K: "nest", S: "{", I: 100000},
		{K: "nestdoc", S: "[", I: 10000}, {K: "nestdoc", S: "{", I: 100000},
		{K: "digits", I: 1 << 20, S: "quantity"}, {K: "digits", I: 1 << 20, S: "price"}, {K: "digits", I: 1 << 16, S: "percent"},
		{K: "longstr", I: 1 << 20}, {K: "manylines", I: 2000}, {K: "manynotes", I: 5000},
	}
	op := kinds[int(run)%len(kinds)]
	op.ID = 1
	p.Ops = []Op{op}
	return p
}

var reFrame = regexp.MustCompile(`(?m)^(\S.*)\n\s+(/[^\s:]+\.go):(\d+)`)

// panicSite returns the first frame inside the tree under test as
// "pkg/file.go:Func" (line numbers are left out so that the signature survives
// unrelated edits).
func panicSite(stack string) string {
	for _, m := range reFrame.FindAllStringSubmatch(stack, -1) {
		fn, f := m[1], m[2]
		if strings.Contains(f, "/verifsim/") || strings.Contains(f, "/verif/") || strings.Contains(f, "/runtime/") || strings.Contains(f, "/opt/veriftools/") || strings.Contains(f, "zz_verif") {
			continue
		}
		if strings.HasPrefix(fn, "panic(") || strings.HasPrefix(fn, "runtime.") {
			continue
		}
		if i := strings.LastIndex(fn, "("); i > 0 {
			fn = fn[:i]
		}
		if i := strings.LastIndex(fn, "/"); i >= 0 {
			fn = fn[i+1:]
		}
		if i := strings.Index(fn, "."); i >= 0 {
			fn = fn[i+1:]
		}
		fn = strings.NewReplacer("(*", "", ")", "", "[...]", "").Replace(fn)
		parts := strings.Split(f, "/")
		n := len(parts)
		if strings.Contains(f, "/pkg/mod/") {
			continue // report the first frame of the tree under test, not of a dependency
		}
		if n >= 2 {
			return parts[n-2] + "/" + parts[n-1] + ":" + fn
		}
		return f + ":" + fn
	}
	return "?"
}

// guard runs f; a panic becomes a violation with the panic site as signature.
func (x *X) guard(what, where string, f func()) (ok bool) {
	defer func() {
		if r := recover(); r != nil {
			st := string(debug.Stack())
			site := panicSite(st)
			sig := "panic@" + site
			if x.faultClass != "" {
				// the kind of damage is part of the signature: a known crash on one input class
				// must not hide a new crash at the same site on another
				sig += ":" + x.faultClass
			}
			x.Violate(sig, "%s panicked: %v\n  input: %s\n  at %s", what, r, where, site)
			ok = false
		}
	}()
	f()
	return true
}

// checkGoblErr asserts that an error surfaced through the envelope API is a
// keyed *gobl.Error that serialises to JSON.
func (x *X) checkGoblErr(what, where string, err error) {
	if err == nil {
		return
	}
	x.Probe("error-keys-checked")
	ge, ok := err.(*gobl.Error)
	if !ok {
		x.Violate("unstructured-error:"+what, "%s returned an error that is not a *gobl.Error (%T): %v\n  input: %s", what, err, err, where)
		return
	}
	if !c14keys[ge.Key().String()] {
		x.Violate("undocumented-error-key:"+what+":"+ge.Key().String(), "%s returned error key %q which errors.go does not declare\n  input: %s", what, ge.Key(), where)
	}
	b, merr := json.Marshal(ge)
	if merr != nil || !json.Valid(b) {
		x.Violate("error-not-serialisable:"+what, "%s returned an error that does not serialise to JSON: %v (%v)\n  input: %s", what, err, merr, where)
	}
}

func (x *X) checkCLIErr(what, where string, err error) {
	if err == nil {
		return
	}
	x.Probe("error-keys-checked")
	ce, ok := err.(*cli.Error)
	if !ok || ce == nil {
		x.Violate("unstructured-cli-error:"+what, "%s returned an error that is not a *cli.Error (%T): %v\n  input: %s", what, err, err, where)
		return
	}
	if ce.Code < 400 || ce.Code > 599 {
		x.Violate("cli-error-without-status:"+what, "%s returned a cli error without a status code: %+v", what, ce)
	}
	if ce.Key != "" && !c14keys[ce.Key.String()] {
		x.Violate("undocumented-error-key:"+what+":"+ce.Key.String(), "%s returned error key %q which errors.go does not declare\n  input: %s", what, ce.Key, where)
	}
	b, merr := json.Marshal(ce)
	if merr != nil || !json.Valid(b) {
		x.Violate("error-not-serialisable:"+what, "%s returned an error that does not serialise to JSON: %v (%v)", what, err, merr)
	}
}

// chain pushes a parsed envelope through every operation.
func (x *X) chain(env *gobl.Envelope, where string) {
	cp := func() *gobl.Envelope {
		e2, err := ParseEnv(Marshal(env))
		if err != nil {
			return nil
		}
		return e2
	}
	var err error
	x.guard("Validate", where, func() { err = env.Validate(); x.checkGoblErr("Validate", where, err) })
	x.guard("Digest", where, func() { _, err = env.Digest(); x.checkGoblErr("Digest", where, err) })
	x.guard("Verify", where, func() { _ = env.Verify(); _ = env.Verify(PubKey(0)) })
	x.guard("Extract", where, func() { _ = env.Extract() })
	x.guard("CorrectionOptionsSchema", where, func() {
		_, err = env.CorrectionOptionsSchema()
		x.checkGoblErr("CorrectionOptionsSchema", where, err)
	})
	x.guard("Correct", where, func() {
		var r *gobl.Envelope
		r, err = env.Correct(bill.Credit, bill.WithReason("x"))
		x.checkGoblErr("Correct", where, err)
		if r != nil {
			_ = r.Validate()
		}
	})
	x.guard("Correct(options)", where, func() {
		// every option at once, as Go options and as raw JSON
		r, err := env.Correct(bill.Corrective, bill.WithReason("x"), bill.WithCopyTax(), bill.WithSeries("S"), bill.WithIssueDate(mustDate("2024-03-01")),
			bill.WithStamps([]*head.Stamp{{Provider: "sim-prv-a", Value: "v"}}), bill.WithExtension("es-tbai-correction", "R1"))
		x.checkGoblErr("Correct", where, err)
		if r != nil {
			_ = r.Validate()
		}
		_, err = env.Correct(bill.WithData([]byte(`{"type":"debit-note","reason":"y","copy_tax":true,"stamps":[{"prv":"sat-uuid","val":"v"}],"ext":{"co-dian-debit-code":"1"},"series":"D","issue_date":"2024-03-02"}`)))
		x.checkGoblErr("Correct", where, err)
		_, err = env.Correct(bill.WithData([]byte(`{"type":`)))
		x.checkGoblErr("Correct", where, err)
		_, err = env.Correct()
		x.checkGoblErr("Correct", where, err)
	})
	x.guard("Replicate", where, func() {
		var r *gobl.Envelope
		r, err = env.Replicate()
		x.checkGoblErr("Replicate", where, err)
		if r != nil {
			_ = r.Validate()
		}
	})
	if e2 := cp(); e2 != nil {
		x.guard("Calculate", where, func() {
			err = e2.Calculate()
			x.checkGoblErr("Calculate", where, err)
			if err == nil {
				x.guard("Validate-after-Calculate", where, func() { x.checkGoblErr("Validate", where, e2.Validate()) })
				x.guard("Sign", where, func() {
					err = e2.Sign(PrivKey(0))
					x.checkGoblErr("Sign", where, err)
					if err == nil {
						_ = e2.Verify(PubKey(0))
					}
				})
			}
		})
	}
	if e3 := cp(); e3 != nil {
		x.guard("Sign-uncalculated", where, func() { x.checkGoblErr("Sign", where, e3.Sign(PrivKey(1))) })
	}
}

// feed gives bytes to the library parsers and (one of) the cli entry points.
func (x *X) feed(data []byte, where string, which int, rdcfg func(*SimReader), ctx context.Context) {
	if ctx == nil {
		ctx = context.Background()
	}
	mkr := func(name string) *SimReader {
		r := NewSimReader(x, name, data)
		if rdcfg != nil {
			rdcfg(r)
		}
		return r
	}
	// library parsers always
	if rdcfg == nil {
		x.guard("json.Unmarshal(Envelope)", where, func() {
			env := new(gobl.Envelope)
			if err := json.Unmarshal(data, env); err == nil {
				x.chain(env, where)
			}
		})
		x.guard("gobl.Parse", where, func() {
			obj, err := gobl.Parse(data)
			x.checkGoblErr("Parse", where, err)
			if env, ok := obj.(*gobl.Envelope); ok && env != nil {
				_ = env.Validate()
			}
		})
		x.guard("schema.Object", where, func() {
			o := new(schema.Object)
			if err := json.Unmarshal(data, o); err == nil {
				_ = o.Calculate()
				_ = o.Validate()
				if env, err := gobl.Envelop(o); err == nil {
					_ = env.Validate()
				}
			}
		})
	}
	var rds []*SimReader
	reader := func(name string) *SimReader { r := mkr(name); rds = append(rds, r); return r }
	switch which % 6 {
	case 0:
		x.guard("cli.Build", where, func() {
			_, err := cli.Build(ctx, &cli.BuildOptions{ParseOptions: &cli.ParseOptions{Input: reader("build")}})
			x.checkCLIErr("cli.Build", where, err)
		})
	case 1:
		x.guard("cli.Validate", where, func() { x.checkCLIErr("cli.Validate", where, cli.Validate(ctx, reader("validate"))) })
	case 2:
		x.guard("cli.Verify", where, func() { x.checkCLIErr("cli.Verify", where, cli.Verify(ctx, reader("verify"), PubKey(0))) })
	case 3:
		x.guard("cli.Sign", where, func() {
			_, err := cli.Sign(ctx, &cli.SignOptions{ParseOptions: &cli.ParseOptions{Input: reader("sign")}, PrivateKey: PrivKey(0)})
			x.checkCLIErr("cli.Sign", where, err)
		})
	case 4:
		x.guard("cli.Correct", where, func() {
			_, err := cli.Correct(ctx, &cli.CorrectOptions{ParseOptions: &cli.ParseOptions{Input: reader("correct")}, Credit: true})
			x.checkCLIErr("cli.Correct", where, err)
			_, err = cli.Correct(ctx, &cli.CorrectOptions{ParseOptions: &cli.ParseOptions{Input: reader("correct-schema")}, OptionsSchema: true})
			x.checkCLIErr("cli.Correct(schema)", where, err)
		})
	case 5:
		x.guard("cli.Replicate", where, func() {
			_, err := cli.Replicate(ctx, &cli.ReplicateOptions{ParseOptions: &cli.ParseOptions{Input: reader("replicate")}})
			x.checkCLIErr("cli.Replicate", where, err)
		})
	}
	for _, r := range rds {
		r.Release() // let a reader goroutine abandoned by a cancelled read finish
	}
	if rdcfg != nil {
		if probe := mkr("probe"); probe.StallAt < 0 {
			x.guard("c14n", where, func() { _, _ = c14n.CanonicalJSON(mkr("c14n")) })
		}
	}
}

// faultClassOf names the kind of damage by its effect: nulling an array element
// is the (known) "null array element" class whichever operator produced it.
func faultClassOf(root *JV, op Op) string {
	if op.K == "nullelem" {
		return "nullelem"
	}
	if op.K == "null" {
		if _, parent, _, _ := At(root, op.S); parent != nil && parent.K == 'a' {
			return "nullelem"
		}
	}
	return op.K
}

func c14mutate(root *JV, op Op) ([]byte, bool) {
	switch op.K {
	case "remove", "alter", "delelem", "dupelem":
		return applyStoreFault(root, op)
	}
	v, parent, key, idx := At(root, op.S)
	if op.K == "sigs" {
		b, ok := corruptSigs(root.Encode(nil), op.S2)
		if !ok && op.S2 == "object" {
			root.Set("sigs", &JV{K: 'a', A: []*JV{{K: 'o'}}})
			return root.Encode(nil), true
		}
		return b, ok
	}
	if v == nil {
		return nil, false
	}
	set := func(nv *JV) bool {
		switch {
		case parent == nil:
			return false
		case parent.K == 'o':
			parent.Set(key, nv)
		case parent.K == 'a':
			parent.A[idx] = nv
		}
		return true
	}
	switch op.K {
	case "taxid":
		if !set(&JV{K: 'o', M: []JM{{"country", JStr(op.S2)}, {"code", JStr(op.S3)}}}) {
			return nil, false
		}
	case "null":
		if !set(&JV{K: 'z'}) {
			return nil, false
		}
	case "retype":
		var nv *JV
		switch op.I % 5 {
		case 0:
			nv = &JV{K: 'n', S: "12345"}
		case 1:
			nv = JStr("retyped")
		case 2:
			nv = &JV{K: 'a', A: []*JV{v.Clone()}}
		case 3:
			nv = &JV{K: 'o', M: []JM{{"x", v.Clone()}}}
		case 4:
			nv = &JV{K: 't'}
		}
		if nv.K == v.K && nv.K != 'a' && nv.K != 'o' {
			nv = &JV{K: 'a'}
		}
		if !set(nv) {
			return nil, false
		}
	case "setstr", "code":
		if v.K == 'a' {
			v.A = append(v.A, JStr(op.S2))
		} else if !set(JStr(op.S2)) {
			return nil, false
		}
	case "emptyarr":
		v.A = nil
	case "nullelem":
		if v.K != 'a' || int(op.I) >= len(v.A) {
			return nil, false
		}
		v.A[op.I] = &JV{K: 'z'}
	case "emptyobj":
		v.M = nil
	default:
		return nil, false
	}
	return root.Encode(nil), true
}

func execC14(x *X) {
	d := x.C.Corpus.Get(x.P.Str["doc"])
	if d == nil {
		x.R.Infra = "corpus document missing"
		return
	}
	t0 := time.Now()
	base, _ := ParseJV(d.Env)
	fromSource := x.P.Str["src"] == "1"
	if fromSource {
		if base = c14tree(d, true); base == nil {
			x.R.Infra = "source document missing"
			return
		}
	}
	for i, op := range x.P.Ops {
		x.Entropy(op.ID)
		nv := len(x.R.Violations)
		switch x.P.Check {
		case "members", "sources":
			src := base
			if op.B && strings.HasPrefix(op.S, "/head") {
				if sb, err := ParseJV(x.signedEnv(d)); err == nil && sb.Get("sigs") != nil {
					src = sb
					x.Probe("signed-envelope-header-damaged")
				}
			}
			dam, ok := c14mutate(src.Clone(), op)
			if !ok {
				continue
			}
			where := fmt.Sprintf("%s with %s at %s %s", d.Name, op.K, op.S, op.S2)
			x.Case(fmt.Sprintf("%s|%s|%s|%s|%d", d.Name, op.K, op.S, op.S2, op.J))
			x.Fault("member-" + op.K)
			x.faultClass = faultClassOf(base, op)
			if op.K == "remove" {
				x.Probe("member-lost-then-full-chain")
			}
			if op.K == "code" {
				x.Probe("unknown-code-substituted")
			}
			if fromSource {
				x.Probe("source-document-damaged-before-first-calculation")
			}
			x.feed(dam, where, int(op.J), nil, nil)
			// the same damage inside the bare document (what `gobl build` gets)
			if dt, err := ParseJV(dam); err == nil && dt.Get("doc") != nil && dt.Get("doc").K == 'o' && op.J%2 == 0 {
				x.feed(dt.Get("doc").Encode(nil), where+" (bare document)", int(op.J)+1, nil, nil)
			}
			x.faultClass = ""
		case "streams":
			where := fmt.Sprintf("%s with stream fault %s at byte %d", d.Name, op.K, op.I)
			x.Case(fmt.Sprintf("%s|%s|%d|%d", d.Name, op.K, op.I, op.N))
			data := d.Env
			ctx := context.Background()
			var cancel context.CancelFunc
			release := func() {}
			cfg := func(r *SimReader) {}
			switch op.K {
			case "eof":
				cfg = func(r *SimReader) { r.EOFAt = int(op.I) }
			case "err":
				cfg = func(r *SimReader) { r.ErrAt = int(op.I); r.ErrWithData = op.J%2 == 0 }
			case "stall":
				cfg = func(r *SimReader) { r.StallAt = int(op.I); r.Chunks = []int{64} }
				ctx, cancel = CancelAfter(ctx, time.Duration(1+op.J)*time.Second, x)
			case "cancel-before":
				ctx, cancel = CancelAfter(ctx, -1, x)
				// CancelableReader selects between ctx.Done and the read; the simulator
				// never lets both be ready at once: the read is held until the call returned
				gate := make(chan struct{})
				iotools.SimYield = func(any, string, int64) { <-gate }
				release = func() { close(gate); iotools.SimYield = nil }
			case "flip":
				data = append([]byte{}, d.Env...)
				data[int(op.I)%len(data)] ^= 1 << uint(op.J)
				x.Fault("bit-flip")
			case "chunk":
				cfg = func(r *SimReader) { r.Chunks = []int{1 + int(op.J)} }
			case "zero":
				cfg = func(r *SimReader) { r.Zero = 2 + int(op.J); r.Chunks = []int{3} }
			}
			start := time.Now()
			switch op.K {
			case "flip":
				x.feed(data, where, int(op.N), nil, nil)
			case "stall":
				// the call runs on its own goroutine so that a call that never returns is a
				// finding (a hang), not a deadlock of the simulator
				done := make(chan struct{})
				var stalled []*SimReader
				go func() {
					defer close(done)
					x.feedStream(data, where, int(op.N), func(r *SimReader) { cfg(r); stalled = append(stalled, r) }, ctx)
				}()
				select {
				case <-done:
				case <-time.After(time.Duration(1+op.J)*time.Second + time.Hour):
					x.Violate("hang:stalled-read-not-released-by-cancel", "a call reading from a stream that stalled at byte %d did not return although its context was cancelled %ds later (still blocked one simulated hour after)\n  input: %s", op.I, 1+op.J, where)
					for _, r := range stalled {
						r.Release()
					}
					<-done
				}
			default:
				x.feedStream(data, where, int(op.N), cfg, ctx)
			}
			if cancel != nil {
				cancel()
			}
			release()
			if op.K == "stall" {
				// a cancelled context must release the stalled read promptly (virtual time)
				if el := time.Since(start); el > time.Duration(2+op.J)*time.Second {
					x.Violate("stall-not-released", "a read stalled at byte %d was not released by cancelling the context after %ds (took %v of virtual time)", op.I, 1+op.J, el)
				} else {
					x.Probe("stall-released-by-cancel")
				}
			}
		case "amplify":
			x.amplify(d, op)
		}
		x.Step(i, "stream", op.K, fmt.Sprint(op.S, op.I, len(x.R.Violations)-nv))
		if len(x.R.Violations) >= 40 {
			break
		}
	}
	x.R.SimTimeS = time.Since(t0).Seconds()
}

func (x *X) feedStream(data []byte, where string, which int, cfg func(*SimReader), ctx context.Context) {
	x.feed(data, where, which, cfg, ctx)
}

func (x *X) amplify(d *Doc, op Op) {
	var data []byte
	where := fmt.Sprintf("amplification %s %s × %d", op.K, op.S, op.I)
	n := int(op.I)
	closer := map[string]string{"[": "]", "{": "}"}[op.S]
	open := op.S
	if op.S == "{" {
		open = `{"a":`
	}
	switch op.K {
	case "nest":
		var b bytes.Buffer
		b.WriteString(strings.Repeat(open, n))
		b.WriteString("1")
		b.WriteString(strings.Repeat(closer, n))
		data = b.Bytes()
		x.Probe("deep-nesting")
	case "nestdoc":
		v, _ := ParseJV(d.Env)
		var b bytes.Buffer
		b.WriteString(strings.Repeat(open, n))
		b.WriteString("1")
		b.WriteString(strings.Repeat(closer, n))
		nv := &JV{K: 'n', S: "0"}
		v.Get("doc").Set("meta", nv)
		s := string(v.Encode(nil))
		data = []byte(strings.Replace(s, `"meta":0`, `"meta":`+b.String(), 1))
		x.Probe("deep-nesting")
	case "digits":
		v, _ := ParseJV(d.Env)
		big := strings.Repeat("9", n)
		l0 := v.Get("doc").Get("lines").A[0]
		switch op.S {
		case "quantity":
			l0.Set("quantity", JStr(big))
		case "price":
			l0.Get("item").Set("price", JStr("0."+big))
		case "percent":
			l0.Get("taxes").A[0].Set("percent", JStr(big+"%"))
		}
		data = v.Encode(nil)
	case "longstr":
		v, _ := ParseJV(d.Env)
		v.Get("doc").Get("supplier").Set("name", JStr(strings.Repeat("ñ", n)))
		data = v.Encode(nil)
	case "manylines":
		v, _ := ParseJV(d.Env)
		ls := v.Get("doc").Get("lines")
		for len(ls.A) < n {
			c := ls.A[0].Clone()
			c.Del("i")
			ls.A = append(ls.A, c)
		}
		data = v.Encode(nil)
	case "manynotes":
		v, _ := ParseJV(d.Env)
		ns := &JV{K: 'a'}
		for i := 0; i < n; i++ {
			ns.A = append(ns.A, &JV{K: 'o', M: []JM{{"key", JStr("general")}, {"text", JStr(fmt.Sprint("note ", i))}}})
		}
		v.Get("doc").Set("notes", ns)
		data = v.Encode(nil)
	}
	x.Case(where)
	x.Fault("amplification")
	for which := 0; which < 6; which++ {
		x.feed(data, where, which, nil, nil)
	}
	x.guard("c14n", where, func() { _, _ = c14n.CanonicalJSON(bytes.NewReader(data)) })
}

var (
	regCCMu sync.Mutex
	regCC   []string
)

// regimeCountries lists the country codes of the published regimes.
func regimeCountries(repo string) []string {
	regCCMu.Lock()
	defer regCCMu.Unlock()
	if regCC != nil {
		return regCC
	}
	files, _ := filepath.Glob(filepath.Join(repo, "data/regimes/*.json"))
	sort.Strings(files)
	for _, f := range files {
		var d struct {
			Country string `json:"country"`
		}
		if b, err := os.ReadFile(f); err == nil && json.Unmarshal(b, &d) == nil && d.Country != "" {
			regCC = append(regCC, d.Country)
		}
	}
	return regCC
}
