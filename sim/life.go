package verifsim

import (
	"bytes"
	"context"
	"encoding/json"
	"fmt"
	"io"
	"math/rand/v2"
	"net/http"
	"strconv"
	"strings"

	"github.com/invopop/gobl"
	"github.com/invopop/gobl/dsig"
	"github.com/invopop/gobl/internal/cli"
)

// Entry points provided by the shim in package main.
var (
	HTTPHandler func(key *dsig.PrivateKey) http.Handler
	Cobra       func(ctx context.Context, args []string, in io.Reader, out, errOut io.Writer) error
)

// Marshal serialises an envelope the way a caller storing it would.
func Marshal(v any) []byte {
	b, err := json.Marshal(v)
	if err != nil {
		return []byte("MARSHAL-ERROR: " + err.Error())
	}
	return b
}

// FirstDiff returns the generic JSON pointer of the first difference between
// two JSON texts (or "" when they are logically and textually equal).
func FirstDiff(a, b []byte) string {
	if bytes.Equal(a, b) {
		return ""
	}
	va, ea := ParseJV(a)
	vb, eb := ParseJV(b)
	if ea != nil || eb != nil {
		return "(unparseable)"
	}
	if da, db := va.Get("doc"), vb.Get("doc"); da != nil && db != nil {
		if p := firstDiff(da, db, "/doc"); p != "" {
			return p
		}
	}
	if p := firstDiff(va, vb, ""); p != "" {
		return p
	}
	return "(member-order-or-format)"
}

func firstDiff(a, b *JV, ptr string) string {
	if a.K != b.K {
		return ptr
	}
	switch a.K {
	case 's', 'n':
		if a.S != b.S {
			return ptr
		}
	case 'a':
		for i := range a.A {
			if i >= len(b.A) {
				return fmt.Sprintf("%s/%d", ptr, i)
			}
			if p := firstDiff(a.A[i], b.A[i], fmt.Sprintf("%s/%d", ptr, i)); p != "" {
				return p
			}
		}
		if len(b.A) > len(a.A) {
			return fmt.Sprintf("%s/%d", ptr, len(a.A))
		}
	case 'o':
		for _, m := range a.M {
			o := b.Get(m.Key)
			if o == nil {
				return ptr + "/" + escPtr(m.Key)
			}
			if p := firstDiff(m.V, o, ptr+"/"+escPtr(m.Key)); p != "" {
				return p
			}
		}
		for _, m := range b.M {
			if a.Get(m.Key) == nil {
				return ptr + "/" + escPtr(m.Key)
			}
		}
	}
	return ""
}

// DiffDetail renders a short description of the first difference.
func DiffDetail(a, b []byte) string {
	p := FirstDiff(a, b)
	va, _ := ParseJV(a)
	vb, _ := ParseJV(b)
	sa, sb := "?", "?"
	if va != nil {
		if v, _, _, _ := At(va, p); v != nil {
			sa = trunc(string(v.Encode(nil)), 200)
		} else {
			sa = "(absent)"
		}
	}
	if vb != nil {
		if v, _, _, _ := At(vb, p); v != nil {
			sb = trunc(string(v.Encode(nil)), 200)
		} else {
			sb = "(absent)"
		}
	}
	return fmt.Sprintf("first difference at %s: %s  vs  %s", p, sa, sb)
}

// Reencode rewrites JSON text in a content-preserving way: member order
// shuffled at every object, whitespace inserted, string escape style changed.
func Reencode(b []byte, seed int64, addNulls bool) ([]byte, error) {
	v, err := ParseJV(b)
	if err != nil {
		return nil, err
	}
	r := rand.New(rand.NewPCG(uint64(seed), 0x5eed))
	st := &EncStyle{R: r, Shuffle: true, Space: r.IntN(3) > 0, Escapes: r.IntN(3) > 0, AddNulls: addNulls}
	if r.IntN(4) == 0 {
		st.Indent = "  "
	}
	out := v.Encode(st)
	// harness self-check: the re-encoding must be content-preserving
	if w, err := ParseJV(out); err != nil || !w.Equal(v) {
		return nil, fmt.Errorf("harness re-encoder produced a non-equivalent text: %v", err)
	}
	return out, nil
}

// applyDocEdit performs a business edit on a document tree. Reports whether
// anything changed.
func applyDocEdit(doc *JV, op Op) bool {
	lines := doc.Get("lines")
	pick := func() *JV {
		if lines == nil || lines.K != 'a' || len(lines.A) == 0 {
			return nil
		}
		return lines.A[int(op.I)%len(lines.A)]
	}
	switch op.S {
	case "qty":
		if l := pick(); l != nil && l.Get("quantity") != nil {
			if l.Get("quantity").S == op.S2 {
				return false
			}
			l.Set("quantity", JStr(op.S2))
			return true
		}
	case "price":
		if l := pick(); l != nil {
			if it := l.Get("item"); it != nil && it.Get("price") != nil && it.Get("price").S != op.S2 {
				it.Set("price", JStr(op.S2))
				return true
			}
		}
	case "rmline":
		if lines != nil && len(lines.A) > 1 {
			lines.A = lines.A[:len(lines.A)-1]
			return true
		}
	case "dupline":
		if l := pick(); l != nil {
			c := l.Clone()
			c.Del("i")
			c.Del("uuid")
			lines.A = append(lines.A, c)
			return true
		}
	case "note":
		n := &JV{K: 'o', M: []JM{{"text", JStr(op.S2)}}}
		if ns := doc.Get("notes"); ns != nil && ns.K == 'a' {
			ns.A = append(ns.A, n)
		} else {
			doc.Set("notes", &JV{K: 'a', A: []*JV{n}})
		}
		return true
	case "rounding":
		if doc.Get("lines") == nil {
			return false
		}
		t := doc.Get("tax")
		if t == nil {
			t = &JV{K: 'o'}
			doc.Set("tax", t)
		}
		if t.Get("rounding").Str() == op.S2 {
			return false
		}
		t.Set("rounding", JStr(op.S2))
		return true
	case "nodate":
		return doc.Del("issue_date")
	case "nouuid":
		return doc.Del("uuid")
	case "custname":
		if c := doc.Get("customer"); c != nil && c.Get("name") != nil && c.Get("name").S != op.S2 {
			c.Set("name", JStr(op.S2))
			return true
		}
	case "code":
		if doc.Get("code") != nil && doc.Get("code").S != op.S2 {
			doc.Set("code", JStr(op.S2))
			return true
		}
	case "rmcode":
		return doc.Del("code")
	case "breakdown":
		// give a line a breakdown whose sub-line prices have fewer decimals than the currency,
		// fractional quantities and a sub-line discount
		if l := pick(); l != nil && l.Get("item") != nil {
			mk := func(q, p string, disc bool) *JV {
				sl := &JV{K: 'o', M: []JM{{"quantity", JStr(q)}, {"item", &JV{K: 'o', M: []JM{{"name", JStr("part")}, {"price", JStr(p)}}}}}}
				if disc {
					sl.M = append(sl.M, JM{"discounts", &JV{K: 'a', A: []*JV{{K: 'o', M: []JM{{"percent", JStr(op.S2)}, {"reason", JStr("sub-line discount")}}}}}})
				}
				return sl
			}
			l.Set("breakdown", &JV{K: 'a', A: []*JV{mk("1.5", "12.5", true), mk("3", "7", false), mk("0.333", "19.9", true)}})
			return true
		}
	case "linedisc":
		if l := pick(); l != nil {
			l.Set("discounts", &JV{K: 'a', A: []*JV{{K: 'o', M: []JM{{"percent", JStr(op.S2)}, {"reason", JStr("line discount")}}}}})
			return true
		}
	case "linecharge":
		if l := pick(); l != nil {
			l.Set("charges", &JV{K: 'a', A: []*JV{{K: 'o', M: []JM{{"percent", JStr(op.S2)}, {"reason", JStr("line charge")}}}}})
			return true
		}
	case "docdisc":
		if doc.Get("lines") == nil {
			return false
		}
		doc.Set("discounts", &JV{K: 'a', A: []*JV{{K: 'o', M: []JM{{"percent", JStr(op.S2)}, {"reason", JStr("document discount")}}}}})
		return true
	case "docfixed":
		// a document-level discount or charge given as a fixed amount with more decimals than the currency
		if doc.Get("lines") == nil {
			return false
		}
		key := "discounts"
		if op.I%2 == 1 {
			key = "charges"
		}
		e := &JV{K: 'o', M: []JM{{"amount", JStr(op.S2)}, {"reason", JStr("fixed amount")}}}
		if op.I%4 < 2 {
			e.Set("taxes", &JV{K: 'a', A: []*JV{{K: 'o', M: []JM{{"cat", JStr("VAT")}, {"rate", JStr("standard")}}}}})
		}
		doc.Set(key, &JV{K: 'a', A: []*JV{e}})
		return true
	case "advances":
		// several percentage advances whose amounts have sub-cent remainders
		if doc.Get("lines") == nil || doc.Get("totals") == nil && doc.Get("supplier") == nil {
			return false
		}
		pay := doc.Get("payment")
		if pay == nil {
			pay = &JV{K: 'o'}
			doc.Set("payment", pay)
		}
		mk := func(p string) *JV {
			return &JV{K: 'o', M: []JM{{"description", JStr("advance")}, {"percent", JStr(p)}}}
		}
		pay.Set("advances", &JV{K: 'a', A: []*JV{mk(op.S2), mk(op.S2), mk("3.333%")}})
		return true
	case "sloppy":
		// a sloppily typed value somewhere in the document: padding, case, doubled blanks, a
		// dangling separator. Whatever the normalisers make of it, they must get there in one pass.
		var leaves []*JV
		for _, nd := range Walk(doc, "") {
			if nd.V.K == 's' && nd.Key != "$schema" && nd.Key != "uuid" && nd.Key != "$regime" && len(nd.V.S) > 0 && len(nd.V.S) < 60 {
				leaves = append(leaves, nd.V)
			}
		}
		if len(leaves) == 0 {
			return false
		}
		v := leaves[int(op.I)%len(leaves)]
		old := v.S
		switch op.J % 9 {
		case 0:
			v.S = "  " + v.S + " "
		case 1:
			v.S = strings.ToLower(v.S)
		case 2:
			v.S = strings.ToUpper(v.S)
		case 3:
			v.S = strings.ReplaceAll(v.S, " ", "  ") + " "
		case 4:
			v.S = v.S + " -"
		case 5:
			v.S = "- " + v.S
		case 6:
			v.S = v.S + "\t\n"
		case 7:
			// the first letters typed twice (a prefix pasted in front of a value that already has it)
			n := 2 + int(op.I/7)%2
			if len(v.S) > n {
				v.S = v.S[:n] + v.S
			}
		case 8:
			// the last word or letters typed twice
			if i := strings.LastIndexByte(v.S, ' '); i > 0 {
				v.S = v.S + v.S[i:]
			} else if len(v.S) > 3 {
				v.S = v.S + " " + v.S[len(v.S)-3:]
			}
		}
		return v.S != old
	case "rmdefaulted":
		// members the calculation fills in when they are absent
		return doc.Del(op.S2)
	case "mixrates":
		// several lines taxed with different rate keys of the same category
		if lines == nil || lines.K != 'a' || len(lines.A) == 0 {
			return false
		}
		for len(lines.A) < 3 {
			c := lines.A[0].Clone()
			c.Del("i")
			c.Del("uuid")
			lines.A = append(lines.A, c)
		}
		keys := []string{"standard", "reduced", "zero", "super-reduced", "intermediate"}
		n := 0
		for i, l := range lines.A {
			if ts := l.Get("taxes"); ts != nil && len(ts.A) > 0 && ts.A[0].Get("rate") != nil {
				ts.A[0].Set("rate", JStr(keys[(i+int(op.I))%3]))
				ts.A[0].Del("percent")
				ts.A[0].Del("ext")
				n++
			}
		}
		return n > 0
	case "idcodes":
		return applyIDCodes(doc, op.I, op.J)
	case "owncountry":
		// a combo that names a country: the document's own (redundant, the
		// calculation drops it) or, every third time, the customer's
		if l := pick(); l != nil {
			ts := l.Get("taxes")
			if ts == nil || ts.K != 'a' || len(ts.A) == 0 || ts.A[0].K != 'o' {
				return false
			}
			who := "supplier"
			if op.I%3 == 2 {
				who = "customer"
			}
			pty := doc.Get(who)
			if pty == nil || pty.Get("tax_id") == nil {
				return false
			}
			c := pty.Get("tax_id").Get("country").Str()
			if c == "" || ts.A[0].Get("country").Str() == c {
				return false
			}
			ts.A[0].Set("country", JStr(c))
			if op.I%2 == 1 {
				ts.A[0].Del("ext")
			}
			return true
		}
	case "codeweird":
		// unusual but legal spellings that normalisers must bring to a stable form in ONE pass
		k := []string{"code", "series"}[int(op.I)%2]
		if doc.Get("lines") == nil && doc.Get("code") == nil {
			return false
		}
		doc.Set(k, JStr(op.S2))
		return true
	case "addrweird":
		for _, pk := range []string{"supplier", "customer"} {
			if p := doc.Get(pk); p != nil && p.Get("addresses") != nil && len(p.Get("addresses").A) > 0 {
				a := p.Get("addresses").A[0]
				a.Set([]string{"code", "region", "locality", "street"}[int(op.I)%4], JStr(op.S2))
				return true
			}
		}
	case "addcat":
		return applyAddCategory(doc, op.I, op.J)
	case "duedates":
		// payment terms with due dates given in percent whose amounts have sub-cent remainders
		if doc.Get("lines") == nil || doc.Get("supplier") == nil {
			return false
		}
		pay := doc.Get("payment")
		if pay == nil || pay.K != 'o' {
			pay = &JV{K: 'o'}
			doc.Set("payment", pay)
		}
		mk := func(d, p string) *JV {
			return &JV{K: 'o', M: []JM{{"date", JStr(d)}, {"percent", JStr(p)}}}
		}
		if op.I%2 == 1 {
			// instalments given as amounts only (three parts of what is payable, the last one
			// taking the remainder): nothing may be derived from them that changes them later
			if parts := splitAmount(doc.Get("totals").Get("payable").Str()); parts != nil {
				mka := func(d, a string) *JV {
					return &JV{K: 'o', M: []JM{{"date", JStr(d)}, {"amount", JStr(a)}}}
				}
				pay.Set("terms", &JV{K: 'o', M: []JM{{"key", JStr("due-date")}, {"due_dates", &JV{K: 'a', A: []*JV{mka("2031-01-31", parts[0]), mka("2031-02-28", parts[1]), mka("2031-03-31", parts[2])}}}}})
				return true
			}
		}
		pay.Set("terms", &JV{K: 'o', M: []JM{{"key", JStr("due-date")}, {"due_dates", &JV{K: 'a', A: []*JV{mk("2031-01-31", op.S2), mk("2031-02-28", op.S2), mk("2031-03-31", "33.34%")}}}}})
		return true
	case "extcode":
		return applyExtCode(doc, op.I, op.J)
	case "graft":
		return applyGraft(doc, op.I, op.J)
	case "paykeys":
		return applyPayKeys(doc, op.I, op.J)
	case "transplant":
		return applyTransplant(doc, op.I, op.J, op.N)
	case "valuedate":
		// the tax applies on another day than the document is issued; sometimes the issue date
		// is left to the clock
		if doc.Get("lines") == nil {
			return false
		}
		if doc.Get("value_date").Str() == op.S2 {
			return false
		}
		doc.Set("value_date", JStr(op.S2))
		if op.I%2 == 0 {
			doc.Del("issue_date")
		}
		return true
	case "fx":
		// something in the document is expressed in another currency than the document's:
		// a payment line, a line's item, an advance, a preceding reference, a due date
		cur := doc.Get("currency").Str()
		if cur == "" {
			return false
		}
		other := "USD"
		if cur == "USD" {
			other = "EUR"
		}
		var targets []*JV
		isPayment := strings.HasSuffix(doc.Get("$schema").Str(), "/bill/payment")
		if lines != nil && lines.K == 'a' {
			for _, l := range lines.A {
				if l == nil || l.K != 'o' {
					continue
				}
				if isPayment {
					targets = append(targets, l)
				} else if it := l.Get("item"); it != nil && it.K == 'o' {
					targets = append(targets, it)
				}
			}
		}
		if p := doc.Get("payment"); p != nil && p.K == 'o' {
			if adv := p.Get("advances"); adv != nil && adv.K == 'a' {
				for _, a := range adv.A {
					if a != nil && a.K == 'o' && a.Get("amount") != nil {
						targets = append(targets, a)
					}
				}
			}
		}
		if pre := doc.Get("preceding"); pre != nil && pre.K == 'a' {
			for _, a := range pre.A {
				if a != nil && a.K == 'o' {
					targets = append(targets, a)
				}
			}
		}
		if len(targets) == 0 {
			return false
		}
		t := targets[int(op.I)%len(targets)]
		if t.Get("currency").Str() == other {
			return false
		}
		t.Set("currency", JStr(other))
		if doc.Get("exchange_rates") == nil {
			doc.Set("exchange_rates", &JV{K: 'a', A: []*JV{
				{K: 'o', M: []JM{{"from", JStr(other)}, {"to", JStr(cur)}, {"amount", JStr(op.S2)}}},
				{K: 'o', M: []JM{{"from", JStr(cur)}, {"to", JStr(other)}, {"amount", JStr("1.0417")}}},
			}})
		}
		return true
	case "scenario":
		return applyScenario(doc, []int64{op.I, op.J, op.N})
	case "inboxweird":
		for _, pk := range []string{"customer", "supplier"} {
			if p := doc.Get(pk); p != nil {
				m := []JM{{"code", JStr(op.S2)}}
				if op.I%2 == 1 {
					m = append([]JM{{"key", JStr("peppol")}}, m...)
				}
				p.Set("inboxes", &JV{K: 'a', A: []*JV{{K: 'o', M: m}}})
				return true
			}
		}
	case "taxidweird":
		if p := doc.Get("supplier"); p != nil && p.Get("tax_id") != nil && p.Get("tax_id").Get("code") != nil {
			c := p.Get("tax_id").Get("code").Str()
			cc := p.Get("tax_id").Get("country").Str()
			switch op.I % 3 {
			case 1:
				// the country prefix typed into the code, once or twice
				p.Get("tax_id").Set("code", JStr(cc+cc+c))
				return true
			case 2:
				// the other spelling of the country (Greece: GR / EL) with the prefix of the first
				if cc == "EL" || cc == "GR" {
					other := map[string]string{"EL": "GR", "GR": "EL"}[cc]
					p.Get("tax_id").Set("country", JStr(other))
					p.Get("tax_id").Set("code", JStr(cc+c))
					return true
				}
				p.Get("tax_id").Set("code", JStr(cc+" "+c))
				return true
			}
			if len(c) > 3 {
				p.Get("tax_id").Set("code", JStr(" "+strings.ToLower(c[:2])+"-"+c[2:len(c)-2]+"."+c[len(c)-2:]+" "))
				return true
			}
		}
	case "amountprec":
		// fixed amounts given with more precision than the currency
		if l := pick(); l != nil {
			dm := []JM{{"amount", JStr(op.S2)}}
			if op.I%3 != 0 {
				dm = append(dm, JM{"reason", JStr("fixed")})
			}
			l.Set("discounts", &JV{K: 'a', A: []*JV{{K: 'o', M: dm}}})
			if op.I%2 == 1 {
				// the same as a charge, with and without a reason
				l.Set("charges", &JV{K: 'a', A: []*JV{{K: 'o', M: append([]JM{}, dm...)}}})
			}
			pay := doc.Get("payment")
			if pay == nil {
				pay = &JV{K: 'o'}
				doc.Set("payment", pay)
			}
			pay.Set("advances", &JV{K: 'a', A: []*JV{{K: 'o', M: []JM{{"description", JStr("fixed advance")}, {"amount", JStr(op.S2)}}}}})
			return true
		}
	case "addons":
		if doc.Get("lines") == nil || doc.Get("supplier") == nil {
			return false
		}
		doc.Set("$addons", &JV{K: 'a', A: []*JV{JStr(op.S2)}})
		return true
	case "pricesinclude":
		t := doc.Get("tax")
		if doc.Get("lines") == nil {
			return false
		}
		if t == nil {
			t = &JV{K: 'o'}
			doc.Set("tax", t)
		}
		t.Set("prices_include", JStr(op.S2))
		return true
	}
	return false
}

var editKinds = []string{"qty", "price", "rmline", "dupline", "note", "rounding", "custname", "code", "breakdown", "linedisc", "linecharge", "docdisc", "advances", "codeweird", "addrweird", "taxidweird", "amountprec", "mixrates", "mixrates", "rmdefaulted", "sloppy", "sloppy", "sloppy", "inboxweird", "scenario", "scenario", "fx", "valuedate", "transplant", "transplant", "docfixed", "paykeys", "graft", "graft", "extcode", "extcode", "addcat", "duedates", "owncountry", "idcodes"}

func genEdit(r *rand.Rand, id int) Op {
	k := Pick(r, editKinds)
	op := Op{ID: id, K: "edit", S: k, I: int64(r.IntN(8))}
	switch k {
	case "qty":
		op.S2 = Pick(r, []string{"1", "2", "3", "7", "0.5", "12.345", "-1", "1000", "0.333333"})
	case "price":
		op.S2 = Pick(r, []string{"10.00", "0.01", "99.99", "1234.5678", "33.33", "100", "0.005", "19.995"})
	case "note":
		op.S2 = Pick(r, []string{"simulated note", "Ünïcödé / slash \"quoted\"", "line\nbreak", "<html>&amp;"})
	case "rounding":
		op.S2 = Pick(r, []string{"currency", "precise"})
	case "custname":
		op.S2 = Pick(r, []string{"Cliente Ñandú S.A.", "ACME / Ltd", "客户"})
	case "code":
		op.S2 = Pick(r, []string{"SIM-001", "A/2024/77", "0042"})
	case "breakdown", "linedisc", "linecharge", "docdisc":
		op.S2 = Pick(r, []string{"10%", "12.5%", "3.33%", "0.5%"})
	case "advances":
		op.S2 = Pick(r, []string{"12.5%", "33.3%", "7.77%"})
	case "codeweird":
		op.S2 = Pick(r, []string{"A -", " 12 ", "ab--cd", "X  Y", "-A-", "a.b.", "1/ 2", "F1 /", "ñ-1", "A_ B"})
	case "addrweird":
		op.S2 = Pick(r, []string{" 187", "(0187)", "28 002", " Madrid ", "  ", "A  B", "c/ Mayor , 1 "})
	case "amountprec":
		op.S2 = Pick(r, []string{"10.12345", "0.005", "1.2349", "3.14159265", "0.004", "0.0001"})
	case "rmdefaulted":
		op.S2 = Pick(r, []string{"type", "currency", "$regime", "type", "tax"})
	case "sloppy":
		op.I, op.J = int64(r.IntN(1<<16)), int64(r.IntN(9))
	case "addcat":
		op.I, op.J = int64(r.IntN(1<<8)), int64(r.IntN(1<<10))
	case "duedates":
		op.S2 = Pick(r, []string{"33.33%", "12.5%", "7.77%"})
	case "extcode":
		op.I, op.J = int64(r.IntN(1<<12)), int64(r.IntN(1<<12))
	case "graft":
		op.I, op.J = int64(r.IntN(1<<12)), int64(r.IntN(1<<10))
	case "paykeys":
		op.I, op.J = int64(r.IntN(1<<10)), int64(r.IntN(1<<10))
	case "idcodes":
		op.I, op.J = int64(r.IntN(1<<16)), int64(r.IntN(1<<16))
	case "docfixed":
		op.S2 = Pick(r, []string{"10.126", "0.005", "3.14159", "7.5", "12.3449"})
	case "transplant":
		op.I, op.J, op.N = int64(r.IntN(1<<12)), int64(r.IntN(1<<12)), int64(r.IntN(4))
	case "valuedate":
		op.S2 = Pick(r, []string{"2012-08-31", "2020-12-31", "2010-06-30", "2023-12-31", "2031-01-01"})
	case "fx":
		op.S2 = Pick(r, []string{"0.96", "0.9137", "1.25", "0.5"})
	case "scenario":
		op.I, op.J, op.N = int64(r.IntN(1<<12)), int64(r.IntN(1<<12)), int64(r.IntN(1<<12))
	case "inboxweird":
		op.S2 = Pick(r, []string{"0088:0192:123456", "0088:4012345678901", " 9915:abc ", "ab1234:xyz", "1234:", "example.com ", " billing@example.com", "example..com", "inbox.example.com/a  b"})
	}
	return op
}

// editEnvBytes applies a document edit to serialised envelope bytes.
func editEnvBytes(b []byte, op Op) ([]byte, bool) {
	v, err := ParseJV(b)
	if err != nil {
		return b, false
	}
	doc := v.Get("doc")
	if doc == nil {
		return b, false
	}
	if !applyDocEdit(doc, op) {
		return b, false
	}
	return v.Encode(nil), true
}

// errKey extracts the gobl error key of an error ("" for nil, "?" when the
// error is not a *gobl.Error or *cli.Error).
func errKey(err error) string {
	if err == nil {
		return ""
	}
	switch e := err.(type) {
	case *gobl.Error:
		return e.Key().String()
	case *cli.Error:
		if e == nil {
			return ""
		}
		if e.Key != "" {
			return e.Key.String()
		}
		return "cli:" + firstWords(e.Message, 3)
	}
	return "?" + firstWords(err.Error(), 3)
}

func firstWords(s string, n int) string {
	f := strings.Fields(s)
	if len(f) > n {
		f = f[:n]
	}
	return strings.Join(f, " ")
}

func errStr(err error) string {
	if err == nil {
		return "<nil>"
	}
	return err.Error()
}

// GDiff is FirstDiff with array indices replaced by "*" (for stable signatures).
func GDiff(a, b []byte) string { return GenericPtr(FirstDiff(a, b)) }

// splitAmount divides a positive decimal amount into three parts of the same
// precision that add up to it (the last takes the remainder); nil if it cannot.
func splitAmount(a string) []string {
	if a == "" || strings.HasPrefix(a, "-") {
		return nil
	}
	exp := 0
	digits := a
	if i := strings.IndexByte(a, '.'); i >= 0 {
		exp = len(a) - i - 1
		digits = a[:i] + a[i+1:]
	}
	v, err := strconv.ParseInt(digits, 10, 64)
	if err != nil || v < 3 {
		return nil
	}
	f := func(n int64) string {
		s := strconv.FormatInt(n, 10)
		if exp == 0 {
			return s
		}
		for len(s) <= exp {
			s = "0" + s
		}
		return s[:len(s)-exp] + "." + s[len(s)-exp:]
	}
	p := v / 3
	return []string{f(p), f(p), f(v - 2*p)}
}
