package verifsim

import (
	"bytes"
	"context"
	"encoding/json"
	"fmt"
	"net/http"
	"net/http/httptest"
	"path/filepath"
	"strings"

	"github.com/invopop/gobl"
	"github.com/invopop/gobl/dsig"
	"github.com/invopop/gobl/head"
	"github.com/invopop/gobl/internal/cli"
)

// C14, check "entry": the HTTP handlers and the cobra commands given damaged
// requests and damaged input. They run in the same process as every other
// request, so a panic or a hang here takes everything down.

func init() {
	pd := props["C14"]
	pd.Checks = append(pd.Checks, &CheckDef{
		Name:   "entry",
		Bubble: true,
		NumRuns: func(c *Ctx) int64 {
			if c.Tier == "thorough" {
				return int64(len(c.Corpus.Valid)) * 40
			}
			return int64(len(c.Corpus.Valid)) * 3
		},
		Plan:             planC14entry,
		Exec:             execC14entry,
		CrashIsViolation: true,
		HangIsViolation:  true,
	})
	pd.RequiredProbes = append(pd.RequiredProbes, "http-handler-exercised", "cobra-command-exercised")
}

var c14httpKinds = []string{"build", "build-doc-damaged", "build-wrong-ctype", "build-empty", "build-badjson", "build-wrongtypes", "build-template", "verify", "verify-damaged", "verify-nokey", "verify-badkey", "key", "root", "bulk-garbage", "bulk-damaged", "unknown-route", "build-huge-type", "bulk-sign-nokey", "validate-head-nulls", "lib-sign-nil", "build-yaml-keys", "sign-other-key-kinds", "verify-head-nulls"}
var c14cobraKinds = []string{"build", "build-envelop", "build-type", "build-set", "validate", "sign", "sign-nokey", "verify", "verify-nokeyfile", "correct-credit", "correct-data", "correct-baddata", "correct-options", "replicate", "bulk", "version", "unknown-flag", "keygen-stdout"}

func planC14entry(c *Ctx, run int64) *Plan {
	docs := c.Corpus.Valid
	d := docs[int(run)%len(docs)]
	r := RNG(c.Seed, run, 41)
	p := &Plan{Prop: "C14", Check: "entry", Seed: c.Seed, Run: run, Str: map[string]string{"doc": d.Name}}
	v, _ := ParseJV(d.Env)
	nodes := Walk(v, "")
	for i := 0; i < 14; i++ {
		op := Op{ID: i + 1}
		if i%2 == 0 {
			op.K, op.S = "http", Pick(r, c14httpKinds)
		} else {
			op.K, op.S = "cobra", Pick(r, c14cobraKinds)
		}
		// the damage applied to the document, if any
		n := nodes[1+r.IntN(len(nodes)-1)]
		op.S2 = n.Ptr
		if Chance(r, 0.2) {
			// the envelope's own members are few among hundreds of pointers; damage them more often
			op.S2 = Pick(r, []string{"/doc", "/head", "/$schema", "/sigs", "/doc/$schema", "/doc/lines", "/doc/supplier", "/head/uuid"})
		}
		op.S3 = Pick(r, []string{"", "remove", "null", "retype", "setstr", "emptyobj", "emptyarr", "dupelem", "delelem"})
		op.I = int64(r.IntN(1 << 20))
		op.J = int64(r.IntN(12))
		p.Ops = append(p.Ops, op)
	}
	return p
}

func init() {
	pd := props["C14"]
	pd.Checks = append(pd.Checks, &CheckDef{
		Name:    "corpus",
		NumRuns: func(c *Ctx) int64 { return 1 },
		Plan: func(c *Ctx, run int64) *Plan {
			return &Plan{Prop: "C14", Check: "corpus", Seed: c.Seed, Run: run}
		},
		Exec: func(x *X) {
			// every well-formed source document (shipped examples and the synthetic variants) must
			// build without panicking; a panic here would otherwise silently shrink the corpus
			for _, d := range x.C.Corpus.Docs {
				x.Case("corpus|" + d.Name)
				if d.PanicStack != "" {
					site := panicSite(d.PanicStack)
					x.Violate("panic@"+site, "building the well-formed document %s panicked: %s\n  at %s", d.Name, d.Err, site)
				}
			}
			x.R.Nontrivial = true
		},
		Exhaustive: func(c *Ctx) bool { return true },
	})
}

func execC14entry(x *X) {
	d := x.C.Corpus.Get(x.P.Str["doc"])
	if d == nil {
		x.R.Infra = "corpus document missing"
		return
	}
	base, _ := ParseJV(d.Env)
	dir := scratchDir()
	handler := HTTPHandler(PrivKey(0))
	for i, op := range x.P.Ops {
		x.Entropy(op.ID)
		data := d.Env
		if op.S3 != "" {
			m := Op{K: op.S3, S: op.S2, I: op.I, S2: Pick(RNG(op.I, 0, 1), []string{"", "0", "-", "ZZZ", "1e999", "0%", "100%"})}
			if dam, ok := c14mutate(base.Clone(), m); ok {
				data = dam
				x.faultClass = faultClassOf(base, m)
			}
		}
		var docOnly []byte = data
		if t, err := ParseJV(data); err == nil && t.Get("doc") != nil && t.Get("doc").K == 'o' {
			docOnly = t.Get("doc").Encode(nil)
		}
		where := fmt.Sprintf("%s %s on %s (damage %s at %s)", op.K, op.S, d.Name, op.S3, op.S2)
		x.Case(fmt.Sprintf("%s|%s|%s|%s|%s", d.Name, op.K, op.S, op.S3, op.S2))
		switch op.K {
		case "http":
			x.Probe("http-handler-exercised")
			method, path, ctype := http.MethodPost, "/build", "application/json"
			h := handler
			var body []byte
			js := func(v any) []byte { b, _ := json.Marshal(v); return b }
			switch op.S {
			case "build":
				body = js(map[string]any{"data": docOnly})
			case "build-doc-damaged":
				body = js(map[string]any{"data": data, "type": "bill.Invoice"})
			case "build-wrong-ctype":
				body, ctype = js(map[string]any{"data": docOnly}), "text/plain"
			case "build-empty":
				body = nil
			case "build-badjson":
				body = []byte(`{"data": "` + strings.Repeat("A", int(op.J)) + `", `)
			case "build-wrongtypes":
				body = []byte(`{"data": 5, "template": {"a":1}, "type": [], "envelop": "yes"}`)
			case "build-template":
				body = js(map[string]any{"data": docOnly, "template": data})
			case "build-huge-type":
				body = js(map[string]any{"data": docOnly, "type": strings.Repeat("x", 1<<16)})
			case "verify":
				path, body = "/verify", js(map[string]any{"data": x.signedEnv(d), "publickey": json.RawMessage(PubKeyJSON(0))})
			case "verify-damaged":
				path, body = "/verify", js(map[string]any{"data": data, "publickey": json.RawMessage(PubKeyJSON(0))})
			case "verify-nokey":
				path, body = "/verify", js(map[string]any{"data": data})
			case "verify-badkey":
				path, body = "/verify", []byte(`{"data":"e30=","publickey":{"kty":"EC","crv":"P-256","x":"AA","y":5}}`)
			case "key":
				path = "/key"
			case "root":
				method, path = http.MethodGet, "/"
			case "bulk-garbage":
				path, body = "/bulk", []byte("{]\n\x00\xff garbage")
			case "bulk-damaged":
				path, body = "/bulk", append(js(map[string]any{"action": "validate", "req_id": "a", "payload": map[string]any{"data": data}}), []byte("\n{\"action\":\"build\",\"payload\":{\"data\":5}}\n")...)
			case "unknown-route":
				path = "/nope"
			case "verify-head-nulls":
				// a signed envelope whose header lists hold null entries, presented for verification
				x.faultClass = ""
				// the signature must cover a stamp for the comparison to look at the lists
				senv, perr := ParseEnv(d.Env)
				if perr != nil {
					break
				}
				senv.Signatures = nil
				senv.Head.AddStamp(&head.Stamp{Provider: "sim-prv-a", Value: "v"})
				if err := senv.Sign(PrivKey(0)); err != nil {
					break
				}
				if t, err := ParseJV(Marshal(senv)); err == nil && t.Get("head") != nil {
					st := &JV{K: 'a', A: []*JV{{K: 'z'}, {K: 'o', M: []JM{{"prv", JStr("sim-prv-a")}, {"val", JStr("v")}}}}}
					if op.J%2 == 1 {
						st.A = []*JV{st.A[1], st.A[0]}
					}
					t.Get("head").Set("stamps", st)
					if op.J%3 == 0 {
						t.Get("head").Set("links", &JV{K: 'a', A: []*JV{{K: 'z'}}})
					}
					damaged := t.Encode(nil)
					x.guard("Envelope.Verify (null header entries)", where, func() {
						env := new(gobl.Envelope)
						if err := json.Unmarshal(damaged, env); err != nil {
							return
						}
						_ = env.Verify(PubKey(0))
						_ = env.Verify()
						for _, sg := range env.Signatures {
							_ = env.VerifySignature(sg, PubKey(0))
						}
					})
					path, body = "/verify", js(map[string]any{"data": damaged, "publickey": json.RawMessage(PubKeyJSON(0))})
				}
			case "sign-other-key-kinds":
				// valid private keys of kinds GOBL does not sign with, through the library and through bulk
				x.faultClass = ""
				kj := otherKindPrivJWK[int(op.J)%len(otherKindPrivJWK)]
				x.guard("Envelope.Sign(other kind of key)", where, func() {
					k := new(dsig.PrivateKey)
					if err := json.Unmarshal([]byte(kj), k); err != nil {
						return
					}
					env := new(gobl.Envelope)
					if err := json.Unmarshal(d.Env, env); err != nil {
						return
					}
					env.Signatures = nil
					err := env.Sign(k)
					x.checkGoblErr("Sign", where, err)
					if err == nil {
						// accepted: then what was signed must survive storage and verify with that key
						x.Probe("other-kind-key-accepted")
						back, perr := ParseEnv(Marshal(env))
						if perr != nil {
							x.Violate("signed-but-unreadable", "Envelope.Sign accepted a %s key, but the serialised envelope cannot be read back: %v\n  %s", trunc(kj, 60), perr, where)
						} else if verr := back.Verify(k.Public()); verr != nil {
							x.Violate("signed-but-unverifiable", "Envelope.Sign accepted a %s key, but the stored envelope does not verify with its public key: %v\n  %s", trunc(kj, 60), verr, where)
						}
					} else {
						x.Probe("other-kind-key-refused")
					}
					_, _ = dsig.NewSignature(k, map[string]string{"a": "b"})
				})
				path, body = "/bulk", append(js(map[string]any{"action": "sign", "req_id": "k", "payload": map[string]any{"data": docOnly, "privatekey": json.RawMessage(kj)}}), '\n')
			case "build-yaml-keys":
				// YAML input whose mappings have keys that are not strings, alone, under a template, as a template
				x.faultClass = ""
				odd := []byte("supplier: {1: x}\ncustomer:\n  ? [a, b]\n  : y\nlines:\n  - {2.5: z}\n")
				switch op.J % 3 {
				case 0:
					body = js(map[string]any{"data": odd, "template": docOnly})
				case 1:
					body = js(map[string]any{"data": docOnly, "template": odd})
				default:
					body = js(map[string]any{"data": odd})
				}
			case "bulk-sign-nokey":
				x.faultClass = ""
				// a server started without a key, asked to sign by a request that names none
				h = HTTPHandler(nil)
				path, body = "/bulk", append(js(map[string]any{"action": "sign", "req_id": "s", "payload": map[string]any{"data": docOnly}}), '\n')
			case "validate-head-nulls":
				x.faultClass = ""
				// null entries in the header's own lists
				if t, err := ParseJV(d.Env); err == nil && t.Get("head") != nil {
					nulls := func(n int64) *JV {
						a := &JV{K: 'a'}
						for k := int64(0); k <= n%3; k++ {
							a.A = append(a.A, &JV{K: 'z'})
						}
						return a
					}
					t.Get("head").Set(Pick(RNG(op.I, 2, 3), []string{"stamps", "links"}), nulls(op.J))
					if op.J%2 == 1 {
						t.Get("head").Set("links", nulls(op.J+1))
					}
					path, body = "/bulk", append(js(map[string]any{"action": "validate", "req_id": "h", "payload": map[string]any{"data": t.Encode(nil)}}), '\n')
				}
			case "lib-sign-nil":
				x.faultClass = ""
				x.guard("Envelope.Sign(nil)", where, func() {
					env := new(gobl.Envelope)
					if err := json.Unmarshal(d.Env, env); err != nil {
						return
					}
					env.Signatures = nil
					if err := env.Sign(nil); err == nil {
						x.Violate("sign-nil-key-succeeds", "Envelope.Sign(nil) reported success\n  input: %s", where)
					}
					var k *dsig.PrivateKey
					_ = k.Validate()
					var pk *dsig.PublicKey
					_ = pk.Validate()
					if _, err := dsig.NewSignature(nil, map[string]string{"a": "b"}); err == nil {
						x.Violate("sign-nil-key-succeeds", "dsig.NewSignature(nil, …) reported success\n  input: %s", where)
					}
				})
				x.faultClass = ""
				continue
			}
			x.guard("HTTP "+path, where, func() {
				req := httptest.NewRequest(method, path, bytes.NewReader(body))
				if ctype != "" {
					req.Header.Set("Content-Type", ctype)
				}
				rec := httptest.NewRecorder()
				h.ServeHTTP(rec, req)
				if rec.Code < 200 || rec.Code > 599 {
					x.Violate("http-status:"+path, "HTTP %s %s answered with status %d\n  input: %s", method, path, rec.Code, where)
				}
				out := bytes.TrimSpace(rec.Body.Bytes())
				if rec.Code == 200 && (path == "/build" || path == "/verify") {
					// success must look like success: a built object, or {"ok":true}
					if v, err := ParseJV(out); err != nil || (path == "/build" && v.Get("$schema") == nil) || (path == "/verify" && v.Get("ok") == nil) {
						x.Violate("http-200-without-result:"+path, "HTTP %s answered 200 but the body is not a result: %q\n  input: %s", path, trunc(string(out), 200), where)
					}
				}
				if path == "/bulk" {
					dec := json.NewDecoder(bytes.NewReader(out))
					for dec.More() {
						var v any
						if err := dec.Decode(&v); err != nil {
							x.Violate("http-body-not-json:"+path, "HTTP %s answered %d with a body that is not a JSON stream: %v\n  input: %s", path, rec.Code, err, where)
							break
						}
					}
				} else if len(out) > 0 && !json.Valid(out) {
					x.Violate("http-body-not-json:"+path, "HTTP %s answered %d with a body that is not JSON: %q\n  input: %s", path, rec.Code, trunc(string(out), 200), where)
				}
			})
		case "cobra":
			x.Probe("cobra-command-exercised")
			var args []string
			in := data
			priv := filepath.Join(dir, "key0.jwk")
			pub := filepath.Join(dir, "key0.pub.jwk")
			switch op.S {
			case "build":
				args, in = []string{"build", "-"}, docOnly
			case "build-envelop":
				args, in = []string{"build", "--envelop", "-i", "-"}, docOnly
			case "build-type":
				args, in = []string{"build", "--type", Pick(RNG(op.I, 1, 2), []string{"bill.Invoice", "org.Party", "nope.Nothing", ""}), "-"}, docOnly
			case "build-set":
				args, in = []string{"build", "--set", "currency=ZZZ", "--set-string", "code=9", "--set", ".=x", "-"}, docOnly
				switch op.J % 6 {
				case 4:
					// a YAML mapping whose key is not a string, set over a member that is an object
					x.faultClass = ""
					args = []string{"build", "--set", "supplier={1: x}", "-"}
				case 5:
					x.faultClass = ""
					args = []string{"build", "--set", ".={supplier: {1: x}, lines: [{2: y}]}", "-"}
				case 1:
					args = []string{"build", "--set", "=foo", "-"}
				case 2:
					args = []string{"build", "--set-string", "=foo", "--set", "a..b=1", "-"}
				case 3:
					args = []string{"build", "--set", `\.=1`, "--set-string", ".=", "--set-file", "x=" + filepath.Join(dir, "missing.yaml"), "-"}
				}
			case "validate":
				args = []string{"validate", "-"}
			case "sign":
				args, in = []string{"sign", "--key", priv, "-"}, docOnly
			case "sign-nokey":
				args, in = []string{"sign", "--key", filepath.Join(dir, "missing.jwk"), "-"}, docOnly
			case "verify":
				args = []string{"verify", "--key", pub, "-"}
			case "verify-nokeyfile":
				args = []string{"verify", "--key", filepath.Join(dir, "missing.pub.jwk"), "-"}
			case "correct-credit":
				args = []string{"correct", "--credit", "-"}
			case "correct-data":
				args = []string{"correct", "--data", `{"type":"credit-note","reason":"r","copy_tax":true}`, "-"}
			case "correct-baddata":
				args = []string{"correct", "--data", `{"type":5,`, "-"}
			case "correct-options":
				args = []string{"correct", "--options", "-"}
			case "replicate":
				args = []string{"replicate", "-"}
			case "bulk":
				args, in = []string{"bulk", "-"}, append(mustJSON(map[string]any{"action": "validate", "payload": map[string]any{"data": data}}), '\n')
			case "version":
				args = []string{"version"}
			case "unknown-flag":
				args = []string{"build", "--no-such-flag", "-"}
			case "keygen-stdout":
				args = []string{"keygen", "-"}
			}
			x.guard("gobl "+args[0], where, func() {
				out, errOut := NewSimWriter(x, "stdout"), NewSimWriter(x, "stderr")
				rd := NewSimReader(x, "stdin", in)
				if op.J > 0 {
					rd.Chunks = []int{int(op.J) * 7}
				}
				err := Cobra(context.Background(), args, rd, out, errOut)
				if err != nil {
					if ce, ok := err.(*cli.Error); ok {
						x.checkCLIErr("gobl "+args[0], where, ce)
					}
					eb := bytes.TrimSpace(errOut.Bytes())
					if len(eb) == 0 || !json.Valid(lastJSONValue(eb)) {
						x.Violate("cobra-error-not-json:"+args[0], "`gobl %s` failed with %v but what main.printError writes is not JSON: %q\n  input: %s", strings.Join(args, " "), err, trunc(string(eb), 200), where)
					}
				} else if args[0] != "keygen" && args[0] != "version" {
					ob := bytes.TrimSpace(out.Bytes())
					if len(ob) > 0 {
						dec := json.NewDecoder(bytes.NewReader(ob))
						for dec.More() {
							var v any
							if e2 := dec.Decode(&v); e2 != nil {
								x.Violate("cobra-output-not-json:"+args[0], "`gobl %s` succeeded but its output is not JSON: %v", strings.Join(args, " "), e2)
								break
							}
						}
					}
				}
			})
		}
		x.faultClass = ""
		x.Step(i, "entry", op.K+":"+op.S, op.S3)
		if len(x.R.Violations) >= 20 {
			break
		}
	}
}

func mustJSON(v any) []byte { b, _ := json.Marshal(v); return b }

// lastJSONValue returns the trailing JSON value of a buffer that may start with
// usage text printed by cobra.
func lastJSONValue(b []byte) []byte {
	if i := bytes.LastIndex(b, []byte("\n{")); i >= 0 && !json.Valid(b) {
		return bytes.TrimSpace(b[i:])
	}
	return b
}
