package verifsim

import (
	"fmt"
	"sort"
	"sync"
	"testing/synctest"
	"time"
)

// Sched is the parking scheduler: real goroutines, one decision at a time.
// A task that reaches a yield point parks on its own channel; the scheduler
// waits (synctest.Wait) until every goroutine in the bubble is durably blocked,
// lists the parked tasks and environment actions in a stable order, and grants
// exactly one according to the plan's next choice.
type Sched struct {
	x       *X
	mu      sync.Mutex
	parked  map[string]*parked
	wake    chan struct{}
	choices []int
	ci      int
	Weights map[string]int // action class -> weight (default 1)
	Starve  map[string]int // class -> remaining steps during which it is not chosen (unless alone)
	Steps   int
	// Env returns the currently enabled environment actions (clock advance etc.).
	Env func() []Action
	// OnGrant is called in the scheduler goroutine right before a task is released.
	OnGrant func(name, class, point string, seq int64)
	stopped bool
}

type parked struct {
	name, class, point string
	seq                int64
	ch                 chan struct{}
}

// Action is an environment action the scheduler may choose instead of a task.
type Action struct {
	Name  string
	Class string
	Do    func()
}

// NewSched creates a scheduler consuming the plan's choice list.
func NewSched(x *X) *Sched {
	return &Sched{x: x, parked: map[string]*parked{}, wake: make(chan struct{}, 1), choices: x.P.Sched, Weights: map[string]int{}, Starve: map[string]int{}}
}

// Yield parks the calling goroutine under a stable task name until granted.
func (s *Sched) Yield(name, class, point string, seq int64) {
	s.mu.Lock()
	if s.stopped {
		s.mu.Unlock()
		return
	}
	if _, dup := s.parked[name]; dup {
		// two goroutines under one name would make the order depend on goroutine identity
		name = fmt.Sprintf("%s#%s", name, point)
	}
	p := &parked{name: name, class: class, point: point, seq: seq, ch: make(chan struct{})}
	s.parked[name] = p
	s.mu.Unlock()
	select {
	case s.wake <- struct{}{}:
	default:
	}
	<-p.ch
}

// Stop releases every parked task and makes further yields no-ops.
func (s *Sched) Stop() {
	s.mu.Lock()
	s.stopped = true
	for k, p := range s.parked {
		close(p.ch)
		delete(s.parked, k)
	}
	s.mu.Unlock()
}

func (s *Sched) next(n int) int {
	if n <= 1 {
		return 0
	}
	c := 0
	if s.ci < len(s.choices) {
		c = s.choices[s.ci]
		if c < 0 {
			c = -c
		}
	}
	s.ci++
	return c % n
}

// Run drives the system until goal() holds, maxSteps were taken, or nothing
// can make progress. It returns "" on success or a description of the stall.
func (s *Sched) Run(goal func() bool, maxSteps int) string {
	for {
		synctest.Wait()
		if goal() {
			return ""
		}
		if s.Steps >= maxSteps {
			return fmt.Sprintf("step budget of %d exhausted", maxSteps)
		}
		s.mu.Lock()
		names := make([]string, 0, len(s.parked))
		for k := range s.parked {
			names = append(names, k)
		}
		s.mu.Unlock()
		sort.Strings(names)
		var env []Action
		if s.Env != nil {
			env = s.Env()
		}
		if len(names) == 0 && len(env) == 0 {
			// nothing is enabled: let virtual time pass until a task parks (a timer inside
			// the system may fire) — or report that nothing ever will
			select {
			case <-s.wake:
				continue
			case <-time.After(1000 * time.Hour):
				return "no task is runnable and no timer is pending (deadlock)"
			}
		}
		// weight-expanded list of candidates
		type cand struct {
			task *parked
			act  *Action
			cls  string
		}
		var cands []cand
		addW := func(c cand) {
			w := 1
			if v, ok := s.Weights[c.cls]; ok {
				w = v
			}
			if s.Starve[c.cls] > 0 {
				w = 0
			}
			for i := 0; i < w; i++ {
				cands = append(cands, c)
			}
		}
		s.mu.Lock()
		var all []cand
		for _, n := range names {
			p := s.parked[n]
			all = append(all, cand{task: p, cls: p.class})
		}
		s.mu.Unlock()
		for i := range env {
			all = append(all, cand{act: &env[i], cls: env[i].Class})
		}
		for _, c := range all {
			addW(c)
		}
		if len(cands) == 0 {
			cands = all // everything enabled is starved or weightless: fall back to plain order
		}
		for k := range s.Starve {
			if s.Starve[k] > 0 {
				s.Starve[k]--
			}
		}
		c := cands[s.next(len(cands))]
		s.Steps++
		if c.task != nil {
			p := c.task
			s.mu.Lock()
			delete(s.parked, p.name)
			s.mu.Unlock()
			s.x.Log.Grant(p.name, p.point)
			s.x.Step(s.Steps, p.name, p.point, fmt.Sprint(p.seq))
			if s.OnGrant != nil {
				s.OnGrant(p.name, p.class, p.point, p.seq)
			}
			close(p.ch)
		} else {
			s.x.Log.Grant("env:"+c.act.Name, c.act.Class)
			s.x.Step(s.Steps, "env", c.act.Name, "")
			c.act.Do()
		}
	}
}
