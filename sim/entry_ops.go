package verifsim

import (
	"bytes"
	"context"
	"encoding/json"
	"fmt"
	"path/filepath"
	"strings"

	"github.com/invopop/gobl"
	"github.com/invopop/gobl/internal/cli"
)

// Entry points through which "validate" and "sign" can be requested for a
// serialised envelope, besides the library methods.
var opEPs = []string{epCLI, epBulk, epHTTPBulk, epCobra}

// validateVia presents a serialised envelope to one validating entry point.
func validateVia(x *X, ep string, data []byte, chunk int) (ok bool, detail string, panicked bool) {
	defer func() {
		if r := recover(); r != nil {
			ok, detail, panicked = false, fmt.Sprint("panic: ", r), true
		}
	}()
	switch ep {
	case epCLI:
		err := cli.Validate(context.Background(), chunkedReader(x, "validate-in", data, chunk))
		return err == nil, errStr(err), false
	case epBulk:
		res, err := bulkOne(x, map[string]any{"action": "validate", "req_id": "v", "payload": map[string]any{"data": data}}, chunk, nil)
		if err != nil {
			return false, err.Error(), false
		}
		if res.Error != nil {
			return false, res.Error.Error(), false
		}
		return strings.Contains(string(res.Payload), `"ok":true`), string(res.Payload), false
	case epHTTPBulk:
		b, _ := json.Marshal(map[string]any{"action": "validate", "req_id": "v", "payload": map[string]any{"data": data}})
		code, body := httpDo("/bulk", append(b, '\n'), nil)
		if code != 200 {
			return false, fmt.Sprintf("%d", code), false
		}
		var first wireResp
		if err := json.NewDecoder(bytes.NewReader(body)).Decode(&first); err != nil {
			return false, "bad bulk response: " + err.Error(), false
		}
		if len(first.Error) > 0 && string(first.Error) != "null" {
			return false, string(first.Error), false
		}
		return strings.Contains(string(first.Payload), `"ok":true`), string(first.Payload), false
	case epCobra:
		out, errOut := NewSimWriter(x, "stdout"), NewSimWriter(x, "stderr")
		err := Cobra(context.Background(), []string{"validate", "-"}, chunkedReader(x, "stdin", data, chunk), out, errOut)
		return err == nil, errStr(err), false
	}
	return false, "unknown entry point", false
}

// signVia asks one entry point to sign a serialised envelope with a pool key
// and returns the envelope it answered with.
func signVia(x *X, ep string, data []byte, keyIdx int, chunk int) (env *gobl.Envelope, detail string, panicked bool) {
	defer func() {
		if r := recover(); r != nil {
			env, detail, panicked = nil, fmt.Sprint("panic: ", r), true
		}
	}()
	parse := func(b []byte) (*gobl.Envelope, string, bool) {
		e, err := ParseEnv(b)
		if err != nil {
			return nil, "answer is not an envelope: " + err.Error(), false
		}
		return e, "", false
	}
	switch ep {
	case epCLI:
		e, err := cli.Sign(context.Background(), &cli.SignOptions{ParseOptions: &cli.ParseOptions{Input: chunkedReader(x, "sign-in", data, chunk)}, PrivateKey: PrivKey(keyIdx)})
		if err != nil {
			return nil, errStr(err), false
		}
		return e, "", false
	case epBulk:
		res, err := bulkOne(x, map[string]any{"action": "sign", "req_id": "s", "payload": map[string]any{"data": data, "privatekey": json.RawMessage(PrivKeyJSON(keyIdx))}}, chunk, nil)
		if err != nil {
			return nil, err.Error(), false
		}
		if res.Error != nil {
			return nil, res.Error.Error(), false
		}
		return parse(res.Payload)
	case epHTTPBulk:
		// the server's own key signs
		b, _ := json.Marshal(map[string]any{"action": "sign", "req_id": "s", "payload": map[string]any{"data": data}})
		code, body := httpDo("/bulk", append(b, '\n'), PrivKey(keyIdx))
		if code != 200 {
			return nil, fmt.Sprintf("%d", code), false
		}
		var first wireResp
		if err := json.NewDecoder(bytes.NewReader(body)).Decode(&first); err != nil {
			return nil, "bad bulk response: " + err.Error(), false
		}
		if len(first.Error) > 0 && string(first.Error) != "null" {
			return nil, string(first.Error), false
		}
		return parse(first.Payload)
	case epCobra:
		out, errOut := NewSimWriter(x, "stdout"), NewSimWriter(x, "stderr")
		keyFile := filepath.Join(scratchDir(), fmt.Sprintf("key%d.jwk", keyIdx))
		if err := Cobra(context.Background(), []string{"sign", "--key", keyFile, "-"}, chunkedReader(x, "stdin", data, chunk), out, errOut); err != nil {
			return nil, errStr(err), false
		}
		return parse(out.Bytes())
	}
	return nil, "unknown entry point", false
}

// signEntryOracle signs the serialised envelope through an entry point and
// compares with what the library does for the same request (parse, calculate,
// sign): the same verdict, the same content, exactly one more signature, and
// that newest signature made by the key and covering the header it is in.
// It returns the entry point's envelope (nil when it refused).
func signEntryOracle(x *X, ep string, data []byte, keyIdx int, chunk int, hist string) *gobl.Envelope {
	ref, err := ParseEnv(data)
	if err != nil {
		return nil
	}
	before := len(ref.Signatures)
	var refErr error
	if p := safely(func() {
		if refErr = ref.Calculate(); refErr == nil {
			refErr = ref.Sign(PrivKey(keyIdx))
		}
	}); p != "" {
		x.Probe("sign-reference-panicked")
		return nil
	}
	got, detail, panicked := signVia(x, ep, data, keyIdx, chunk)
	x.Probe("sign-through-entry-point")
	if panicked {
		x.Violate("sign-entry:panic:"+ep, "signing through %s panicked: %s\n  history: %s", ep, detail, hist)
		return nil
	}
	if (got != nil) != (refErr == nil) {
		x.Violate("sign-entry:verdict:"+ep, "signing through %s %s, the library's calculate + sign of the same envelope %s (%v / %s)\n  history: %s",
			ep, map[bool]string{true: "succeeded", false: "was refused"}[got != nil], map[bool]string{true: "succeeds", false: "is refused"}[refErr == nil], refErr, detail, hist)
		return got
	}
	if got == nil {
		x.Probe("sign-through-entry-point-refused")
		return nil
	}
	if len(got.Signatures) != before+1 {
		x.Violate("sign-entry:count:"+ep, "a successful sign through %s turned %d signature(s) into %d: no signature was made for the request\n  history: %s", ep, before, len(got.Signatures), hist)
		return got
	}
	if before > 0 {
		x.Probe("sign-through-entry-point-already-signed")
	}
	last := got.Signatures[len(got.Signatures)-1]
	if err := got.VerifySignature(last, PubKey(keyIdx)); err != nil {
		x.Violate("sign-entry:newest-not-covering:"+ep, "after a successful sign through %s the newest signature does not verify against the signer's key and the envelope's header: %v\n  history: %s", ep, err, hist)
		return got
	}
	// same content as the library's result (signatures are randomised: compare all else)
	strip := func(e *gobl.Envelope) []byte {
		v, _ := ParseJV(Marshal(e))
		if v != nil {
			v.Del("sigs")
			return v.Encode(nil)
		}
		return nil
	}
	if a, b := strip(got), strip(ref); !bytes.Equal(a, b) {
		x.Violate("sign-entry:content:"+ep, "the envelope signed through %s differs from the library's calculate + sign of the same input: %s\n  history: %s", ep, DiffDetail(a, b), hist)
	}
	return got
}

// validateEntryOracle presents the serialised envelope to every validating
// entry point; each must give the library's verdict for the same bytes.
func validateEntryOracle(x *X, data []byte, chunk int, hist string) {
	ref, err := ParseEnv(data)
	if err != nil {
		return
	}
	var refErr error
	if p := safely(func() { refErr = ref.Validate() }); p != "" {
		return
	}
	for _, ep := range opEPs {
		ok, detail, panicked := validateVia(x, ep, data, chunk)
		x.Probe("validate-through-entry-point")
		if panicked {
			x.Violate("validate-entry:panic:"+ep, "validating through %s panicked: %s\n  history: %s", ep, detail, hist)
			continue
		}
		if ok != (refErr == nil) {
			x.Violate("validate-entry:verdict:"+ep+":"+errKey(refErr), "validate through %s answered ok=%v, Envelope.Validate on the same bytes returns %v (%s)\n  history: %s", ep, ok, refErr, trunc(detail, 200), hist)
		} else if !ok {
			x.Probe("validate-through-entry-point-refused")
		}
	}
}

// buildEntryOracle presents the serialised envelope to the build entry
// points. Whatever build answers with has been validated by it: the library
// must find the answer valid too (a build that validates one state and hands
// out another is caught here).
func buildEntryOracle(x *X, data []byte, chunk int, hist string) {
	for _, ep := range []string{epCLI, epBulk, epCobra} {
		var out []byte
		var detail string
		p := safely(func() {
			switch ep {
			case epCLI:
				res, err := cli.Build(context.Background(), &cli.BuildOptions{ParseOptions: &cli.ParseOptions{Input: chunkedReader(x, "build-in", data, chunk)}})
				if err != nil {
					detail = errStr(err)
					return
				}
				out, _ = json.Marshal(res)
			case epBulk:
				res, err := bulkOne(x, map[string]any{"action": "build", "req_id": "b", "payload": map[string]any{"data": data}}, chunk, nil)
				if err != nil {
					detail = err.Error()
					return
				}
				if res.Error != nil {
					detail = res.Error.Error()
					return
				}
				out = res.Payload
			case epCobra:
				o, e := NewSimWriter(x, "stdout"), NewSimWriter(x, "stderr")
				if err := Cobra(context.Background(), []string{"build", "-"}, chunkedReader(x, "stdin", data, chunk), o, e); err != nil {
					detail = errStr(err)
					return
				}
				out = o.Bytes()
			}
		})
		x.Probe("build-through-entry-point")
		if p != "" {
			x.Violate("build-entry:panic:"+ep, "building through %s panicked: %s\n  history: %s", ep, trunc(p, 200), hist)
			continue
		}
		if out == nil {
			_ = detail
			x.Probe("build-through-entry-point-refused")
			continue
		}
		env, err := ParseEnv(out)
		if err != nil {
			x.Violate("build-entry:unreadable:"+ep, "what build through %s answered is not an envelope: %v\n  history: %s", ep, err, hist)
			continue
		}
		var verr error
		if p := safely(func() { verr = env.Validate() }); p != "" {
			continue
		}
		if verr != nil {
			x.Violate("build-entry:invalid-answer:"+ep+":"+errKey(verr), "build through %s succeeded, but Envelope.Validate refuses what it answered with: %v\n  history: %s", ep, verr, hist)
		}
	}
}
