package verifsim

import (
	"bytes"
	"context"
	"encoding/json"
	"fmt"
	"os"
	"path/filepath"
	"runtime"
	"sort"
	"strings"
	"sync"
	"time"

	"github.com/invopop/gobl"
	"github.com/invopop/gobl/bill"
	"github.com/invopop/gobl/schema"
)

// C15, check "racecold": the first use of a regime/addon family in a process,
// made by several callers at once. Every other C15 check runs in a process that
// has already built the whole corpus sequentially, so whatever the code
// initialises lazily (compiled patterns, lookup tables, caches filled on first
// use) is already warm there and a missing lock around that first fill can not
// be seen. Here each run is a fresh OS process of the -race binary that does
// nothing before the concurrent callers start: no corpus, no warm-up.

func init() {
	pd := props["C15"]
	pd.Checks = append(pd.Checks, &CheckDef{
		Name:      "racecold",
		NeedsRace: true,
		NumRuns: func(c *Ctx) int64 {
			n := int64(len(coldInputs(c)))
			if c.Tier == "thorough" {
				return n * 3
			}
			if n > 60 {
				n = 60
			}
			return n
		},
		Plan: planRaceCold,
		Exec: execRaceCold,
	})
}

var (
	coldMu   sync.Mutex
	coldList []string
)

// coldFiles lists the shipped, already built envelopes (examples/*/out/*.json), relative to the repo.
func coldFiles(repo string) []string {
	coldMu.Lock()
	defer coldMu.Unlock()
	if coldList != nil {
		return coldList
	}
	for _, pat := range []string{"examples/*/out/*.json", "examples/out/*.json"} {
		fs, _ := filepath.Glob(filepath.Join(repo, pat))
		for _, f := range fs {
			rel, _ := filepath.Rel(repo, f)
			coldList = append(coldList, rel)
		}
	}
	sort.Strings(coldList)
	return coldList
}

// coldInputs: the source documents of the corpus (the synthetic ones first: they are the
// shapes no shipped example has, e.g. rate keys that are migrated when read) followed by the
// shipped, already built envelopes. "src:<name>" stands for a corpus document's source.
func coldInputs(c *Ctx) []string {
	var syn, src []string
	for _, d := range c.Corpus.Valid {
		if strings.HasPrefix(d.Name, "synthetic/") {
			syn = append(syn, "src:"+d.Name)
		} else {
			src = append(src, "src:"+d.Name)
		}
	}
	return append(append(syn, src...), coldFiles(c.Repo)...)
}

func planRaceCold(c *Ctx, run int64) *Plan {
	r := RNG(c.Seed, run, 29)
	files := coldInputs(c)
	p := &Plan{Prop: "C15", Check: "racecold", Seed: c.Seed, Run: run, Knobs: map[string]int64{
		"gomaxprocs": []int64{4, 16, 2}[int(run)%3], "goroutines": int64(4 + r.IntN(9)),
	}}
	// one family per process: the file this run is about (a seeded permutation walks all of
	// them), sometimes joined by one or two others
	first := files[int(run+c.Seed-1)%len(files)]
	if c.Tier == "thorough" {
		first = files[int((run*7+c.Seed))%len(files)]
	}
	p.Ops = append(p.Ops, Op{ID: 1, K: "use", S: first})
	for i, n := 0, r.IntN(3); i < n; i++ {
		p.Ops = append(p.Ops, Op{ID: 2 + i, K: "use", S: Pick(r, files)})
	}
	return p
}

func execRaceCold(x *X) {
	// sources of corpus documents are handed over as files: the cold process loads no corpus
	cp := clonePlan(x.P)
	for i, op := range cp.Ops {
		if strings.HasPrefix(op.S, "src:") {
			d := x.C.Corpus.Get(strings.TrimPrefix(op.S, "src:"))
			if d == nil {
				x.R.Infra = "corpus document missing: " + op.S
				return
			}
			path := filepath.Join(scratchDir(), "cold-"+HS(d.Name)[:12]+".json")
			if err := os.WriteFile(path, d.Src, 0o644); err != nil {
				x.R.Infra = err.Error()
				return
			}
			cp.Ops[i].S3 = path
		}
	}
	b, _ := json.Marshal(cp)
	cmd := selfCmd(x.C, "cold", "C15", "VERIF_COLD_PLAN="+string(b), "GORACE=halt_on_error=0 exitcode=66")
	var out, errb bytes.Buffer
	cmd.Stdout, cmd.Stderr = &out, &errb
	done := make(chan error, 1)
	if err := cmd.Start(); err != nil {
		x.R.Infra = "cold process did not start: " + err.Error()
		return
	}
	go func() { done <- cmd.Wait() }()
	select {
	case <-done:
	case <-time.After(240 * time.Second):
		cmd.Process.Kill()
		<-done
		x.Violate("cold-start-hang", "a fresh process in which %d callers use %v at once did not finish within 240 s", x.P.Knob("goroutines", 0), opFiles(x.P))
		return
	}
	x.Case("cold|" + strings.Join(opFiles(x.P), ","))
	tail := errb.String()
	switch {
	case strings.Contains(tail, "WARNING: DATA RACE"):
		x.Violate("cold-start-race:"+crashSite(tail[strings.Index(tail, "WARNING: DATA RACE"):]), "data race between the first callers of a fresh process using %v:\n%s", opFiles(x.P), trunc(tail, 2500))
	case strings.Contains(tail, "fatal error:") || strings.Contains(tail, "panic:"):
		x.Violate("cold-start-abort:"+crashSite(tail), "a fresh process in which several callers use %v at once died:\n%s", opFiles(x.P), trunc(tail, 2500))
	case !strings.Contains(out.String(), "COLD-DONE"):
		x.R.Infra = "cold process ended without completing: " + trunc(tail, 800)
	default:
		x.Probe("cold-process-completed")
		x.R.Nontrivial = true
		if strings.Contains(out.String(), "COLD-MISMATCH") {
			x.Violate("cold-start-result-differs", "callers racing through the first use of %v got different results for the same envelope: %s", opFiles(x.P), trunc(out.String(), 800))
		}
	}
	x.R.Evals = x.P.Knob("goroutines", 1) * int64(len(x.P.Ops))
	x.Log.Event(0, 0, "racecold", "done", fmt.Sprint(len(x.P.Ops)))
}

func opFiles(p *Plan) []string {
	var l []string
	for _, op := range p.Ops {
		l = append(l, op.S)
	}
	return l
}

// coldMain is the whole life of a cold process: read the bytes, release all
// callers at once, compare what they got.
func coldMain(c *Ctx) int {
	var p Plan
	if err := json.Unmarshal([]byte(os.Getenv("VERIF_COLD_PLAN")), &p); err != nil {
		fmt.Fprintln(os.Stderr, "bad cold plan:", err)
		return 2
	}
	runtime.GOMAXPROCS(int(p.Knob("gomaxprocs", 4)))
	var data [][]byte
	for _, op := range p.Ops {
		path := filepath.Join(c.Repo, op.S)
		if op.S3 != "" {
			path = op.S3
		}
		b, err := os.ReadFile(path)
		if err != nil {
			fmt.Fprintln(os.Stderr, "cold input:", err)
			return 2
		}
		data = append(data, b)
	}
	g := int(p.Knob("goroutines", 8))
	start := make(chan struct{})
	results := make([][]string, g)
	var wg sync.WaitGroup
	for w := 0; w < g; w++ {
		wg.Add(1)
		go func(w int) {
			defer wg.Done()
			<-start
			for _, b := range data {
				results[w] = append(results[w], coldUse(b, w))
			}
		}(w)
	}
	close(start)
	wg.Wait()
	// callers with the same role must have got the same answer
	for w := 6; w < g; w++ {
		for i := range data {
			if results[w][i] != results[w%6][i] {
				fmt.Printf("COLD-MISMATCH caller %d vs %d on %s: %s vs %s\n", w, w%6, p.Ops[i].S, results[w][i], results[w%6][i])
			}
		}
	}
	fmt.Println("COLD-DONE")
	return 0
}

// coldUse is what a caller does with a stored envelope: parse, validate,
// calculate again; odd callers also ask for a correction of invoices.
func coldUse(b []byte, w int) (out string) {
	defer func() {
		if r := recover(); r != nil {
			out = fmt.Sprint("panic:", r)
		}
	}()
	env := new(gobl.Envelope)
	var probe struct {
		Schema string `json:"$schema"`
	}
	_ = json.Unmarshal(b, &probe)
	if probe.Schema != string(gobl.EnvelopeSchema) {
		// a bare source document: the first calculation (with whatever is migrated or derived on
		// the way) happens here
		if w%3 == 2 {
			// every third caller's copy leaves its date to the clock
			if v, err := ParseJV(b); err == nil && v.Get("issue_date") != nil {
				v.Del("issue_date")
				v.Del("value_date")
				v.Del("op_date")
				b = v.Encode(nil)
			}
		}
		doc := new(schema.Object)
		if err := json.Unmarshal(b, doc); err != nil {
			return "parse:" + err.Error()
		}
		e2, err := gobl.Envelop(doc)
		if err != nil {
			return "envelop:" + err.Error()
		}
		env = e2
	} else if err := json.Unmarshal(b, env); err != nil {
		return "parse:" + err.Error()
	}
	res := []string{}
	res = append(res, "validate="+errStr(env.ValidateWithContext(context.Background())))
	res = append(res, "calculate="+errStr(env.Calculate()))
	res = append(res, "validate2="+errStr(env.Validate()))
	if w%2 == 1 {
		if _, ok := env.Extract().(*bill.Invoice); ok {
			_, err := env.Correct(bill.Credit, bill.WithReason("cold"))
			res = append(res, "correct-ok="+fmt.Sprint(err == nil))
		}
	}
	dig := ""
	if env.Head != nil && env.Head.Digest != nil {
		dig = env.Head.Digest.Value
	}
	return strings.Join(res, ";") + ";dig=" + dig
}
