package verifsim

import (
	"fmt"

	"github.com/invopop/gobl/dsig"
	"strings"
	"time"
)

// C09 — signature verification accepts exactly what was signed, on every path.
// Histories: populate header, sign, modify header/document (with and without
// recalculation, across crash-restarts and re-encodings), then present the
// envelope to each of the seven verification entry points with the signer's
// key, another key and no key. Reference model: the header snapshot taken at
// signing (lifemodel.go: hdrSnap.covers).

var c09bases = []string{
	"examples/es/invoice-es-es", "examples/pt/invoice", "examples/mx/invoice", "examples/de/invoice-de-de",
	"examples/it/freelance", "examples/es/credit-note-es-es-tbai", "examples/gb/invoice-b2b", "examples/fr/invoice-fr-fr",
}

var c09fields = []string{"uuid", "digest", "stamp", "link", "tag", "meta", "notes"}

func init() {
	register(&PropDef{
		ID:    "C09",
		Level: "exploration",
		Rule: "histories sign → modify → present (signing and re-signing also through cli.Sign, bulk, HTTP bulk and gobl sign; accepted envelopes also presented re-encoded to the byte-based entry points; the signer's key also without and under another key id): check 'floor' enumerates, per base document, each of the seven signed header fields × {alter, remove, add another} × {no recalculation, recalculation} and presents the result to all seven verification entry points (Envelope.Verify, Envelope.VerifySignature, cli.Verify over a chunked simulated stream, bulk verify, HTTP /verify, HTTP /bulk, `gobl verify` cobra command) × {signer's key, other key, no key}; check 'life' draws seeded longer histories with crash-restart, lost-write and re-encoding faults; " +
			"a case is (history, entry point, key) and is non-trivial when the history modified the envelope after signing",
		Assumptions: []string{
			"single-signer envelopes (the CLI paths only look at the first signature)",
			"for a document edited without recalculation the library's Verify (which by design checks the header, not the digest) is not asserted; the CLI/bulk/HTTP paths, which validate first, must refuse it",
		},
		RequiredProbes: []string{"must-succeed-after-additions", "must-fail-digest-after-recalc", "must-fail-wrong-key", "presented-after-restart"},
		Checks: []*CheckDef{
			{
				Name:       "floor",
				Bubble:     true,
				NumRuns:    func(c *Ctx) int64 { return int64(c09floorBases(c) * len(c09fields) * 3 * 2) },
				Plan:       planC09floor,
				Exec:       execC09,
				Exhaustive: func(c *Ctx) bool { return true },
			},
			{
				Name:   "life",
				Bubble: true,
				NumRuns: func(c *Ctx) int64 {
					if c.Tier == "thorough" {
						return 20000
					}
					return 1500
				},
				Plan: planC09life,
				Exec: execC09,
			},
		},
	})
}

func c09floorBases(c *Ctx) int {
	if c.Tier == "thorough" {
		return len(c09bases)
	}
	return 3
}

func c09populate(id *int) []Op {
	mk := func(o Op) Op { *id++; o.ID = *id; return o }
	return []Op{
		mk(Op{K: "stamp", S: "sim-prv-a", S2: "v1"}),
		mk(Op{K: "stamp", S: "sim-prv-b", S2: "v1"}),
		mk(Op{K: "link", S: "pdf", S2: linkURLs[0]}),
		mk(Op{K: "link", S: "xml", S2: linkURLs[2]}),
		mk(Op{K: "tag", S: "t1"}),
		mk(Op{K: "tag", S: "t2"}),
		mk(Op{K: "meta", S: "m1", S2: "x"}),
		mk(Op{K: "meta", S: "m2", S2: "y"}),
		mk(Op{K: "notes", S: "n1"}),
	}
}

func planC09floor(c *Ctx, run int64) *Plan {
	i := int(run)
	recalc := i % 2
	i /= 2
	action := i % 3
	i /= 3
	field := c09fields[i%len(c09fields)]
	i /= len(c09fields)
	base := c09bases[i%len(c09bases)]
	p := &Plan{Prop: "C09", Check: "floor", Seed: c.Seed, Run: run, Str: map[string]string{"doc": base}}
	id := 0
	p.Ops = append(p.Ops, c09populate(&id)...)
	mk := func(o Op) { id++; o.ID = id; p.Ops = append(p.Ops, o) }
	mk(Op{K: "sign", I: 0})
	switch field {
	case "uuid":
		mk(Op{K: "uuid", I: int64(action)})
	case "digest":
		// the only way to a different digest is a different document
		mk(Op{K: "edit", S: []string{"qty", "custname", "note"}[action], S2: []string{"7", "Changed Customer", "added after signing"}[action]})
	case "stamp":
		mk([]Op{{K: "stamp-alter", I: 0, S2: "v9"}, {K: "stamp-rm", I: 1}, {K: "stamp", S: "sim-prv-c", S2: "v1"}}[action])
	case "link":
		mk([]Op{{K: "link-alter", I: 0, S2: linkURLs[1]}, {K: "link-rm", I: 1}, {K: "link", S: "portal", S2: linkURLs[1]}}[action])
	case "tag":
		mk([]Op{{K: "tag-rm", I: 0}, {K: "tag-rm", I: 1}, {K: "tag", S: "t3"}}[action])
	case "meta":
		mk([]Op{{K: "meta", S: "m1", S2: "changed"}, {K: "meta-rm", S: "m2"}, {K: "meta", S: "m3", S2: "z"}}[action])
	case "notes":
		mk([]Op{{K: "notes", S: "not n1"}, {K: "notes", S: ""}, {K: "tag", S: "t4"}}[action]) // the altered notes contain the signed ones
	}
	if recalc == 1 {
		mk(Op{K: "calc"})
	}
	mk(Op{K: "present"})
	return p
}

func planC09life(c *Ctx, run int64) *Plan {
	r := RNG(c.Seed, run, 9)
	base := c09bases[int(run)%len(c09bases)]
	p := &Plan{Prop: "C09", Check: "life", Seed: c.Seed, Run: run, Str: map[string]string{"doc": base}, Knobs: map[string]int64{"chunk": Pick(r, []int64{0, 1, 7, 64, 4096})}}
	id := 0
	mk := func(o Op) { id++; o.ID = id; p.Ops = append(p.Ops, o) }
	genHdr := func() Op {
		k := Pick(r, []string{"stamp", "stamp", "stamp-alter", "stamp-rm", "link", "link-alter", "link-detail", "link-rm", "tag", "tag-rm", "meta", "meta-rm", "notes", "uuid"})
		op := Op{K: k, I: int64(r.IntN(4))}
		switch k {
		case "stamp", "stamp-alter":
			op.S, op.S2 = Pick(r, stampProviders), Pick(r, []string{"v1", "v2", "v3"})
		case "link", "link-alter":
			op.S, op.S2 = Pick(r, linkKeys), Pick(r, linkURLs)
		case "tag":
			op.S = Pick(r, []string{"t1", "t2", "t3"})
		case "meta", "meta-rm":
			op.S, op.S2 = Pick(r, []string{"m1", "m2", "m3"}), Pick(r, []string{"x", "y"})
		case "notes":
			op.S = Pick(r, []string{"", "n1", "n2", "not n1", "n2 and more"})
		}
		return op
	}
	// before signing: some header content (all additions)
	for i, n := 0, r.IntN(6); i < n; i++ {
		op := genHdr()
		if strings.HasSuffix(op.K, "-rm") || strings.HasSuffix(op.K, "-alter") || strings.HasSuffix(op.K, "-detail") || op.K == "uuid" {
			continue
		}
		mk(op)
	}
	signer := int64(r.IntN(3))
	mk(Op{K: "sign", I: signer, S3: Pick(r, []string{"", "", "", epCLI, epBulk, epHTTPBulk, epCobra})})
	n := r.IntN(8)
	for i := 0; i < n; i++ {
		switch v := r.IntN(23); {
		case v < 9:
			mk(genHdr())
		case v < 12:
			mk(Op{K: "edit", S: Pick(r, []string{"qty", "custname", "note", "price"}), S2: Pick(r, []string{"3", "Someone Else", "post-signature note", "12.34"}), I: int64(r.IntN(3))})
		case v < 14:
			mk(Op{K: "calc"})
		case v < 17:
			mk(Op{K: Pick(r, []string{"crash", "persist", "restore", "reencode", "lostwrite"}), I: int64(r.Uint32())})
		case v < 18:
			mk(Op{K: "unsign"})
			mk(Op{K: "calc"})
			mk(Op{K: "sign", I: signer})
		case v < 20:
			// the signer signs again through an entry point, whatever happened since
			mk(Op{K: "resign-ep", S3: Pick(r, opEPs)})
		default:
			mk(Op{K: "present"})
		}
	}
	if Chance(r, 0.15) {
		// the co-signature attack: modify, recalculate, let another party sign and put it first
		mk(Op{K: "edit", S: "qty", S2: "9"})
		mk(Op{K: "calc"})
		mk(Op{K: "cosign-prepend"})
	}
	if Chance(r, 0.5) {
		mk(Op{K: "crash"})
	}
	mk(Op{K: "present"})
	return p
}

func execC09(x *X) {
	base := x.P.Str["doc"]
	s := newLifeSlot(x, base)
	if s == nil {
		return
	}
	chunk := int(x.P.Knob("chunk", 0))
	t0 := time.Now()
	modifiedAfterSign := false
	restartedAfterSign := false
	hist := []string{}
	for i, op := range x.P.Ops {
		x.Entropy(op.ID)
		k := op.K
		if op.S != "" {
			k += ":" + op.S
		}
		hist = append(hist, k)
		note := ""
		switch op.K {
		case "sign", "resign-ep":
			if op.K == "resign-ep" && len(s.m.sigs) != 1 {
				note = "noop"
				break
			}
			if op.S3 != "" {
				// signing requested through an entry point: parse, calculate, sign
				key := int(op.I)
				if op.K == "resign-ep" {
					key = s.m.sigs[0].key
				}
				got := signEntryOracle(x, op.S3, Marshal(s.env), key, chunk, strings.Join(hist, " → "))
				if got == nil {
					note = "refused"
					break
				}
				s.env = got
				s.markCalculated()
				s.m.sigs = append(s.m.sigs, sigRec{key: key, snap: snapHeader(got.Head), real: true})
				if op.K == "sign" {
					modifiedAfterSign, restartedAfterSign = false, false
				}
				break
			}
			snap := snapHeader(s.env.Head)
			if err := s.env.Sign(PrivKey(int(op.I))); err != nil {
				note = "sign-error:" + errKey(err)
				s.m.sigs = nil
				break
			}
			s.m.sigs = append(s.m.sigs, sigRec{key: int(op.I), snap: snap, real: true})
			modifiedAfterSign, restartedAfterSign = false, false
		case "cosign-prepend":
			if len(s.m.sigs) != 1 || len(s.env.Signatures) != 1 {
				note = "noop"
				break
			}
			otherKey := (s.m.sigs[0].key + 1) % len(keyJWK)
			snap := snapHeader(s.env.Head)
			sig, err := PrivKey(otherKey).Sign(s.env.Head)
			if err != nil {
				note = "sign-error"
				break
			}
			s.env.Signatures = append([]*dsig.Signature{sig}, s.env.Signatures...)
			s.m.sigs = append([]sigRec{{key: otherKey, snap: snap, real: true}}, s.m.sigs...)
		case "unsign":
			s.env.Unsign()
			s.m.sigs = nil
		case "calc":
			if err := s.env.Calculate(); err == nil {
				s.markCalculated()
			}
		case "edit":
			if lifeEdit(s.env, op) {
				modifiedAfterSign = true
			} else {
				note = "noop"
			}
		case "persist":
			s.durable, s.durM = Marshal(s.env), s.m.clone()
		case "lostwrite":
			if s.durable != nil {
				x.Fault("lost-write")
			}
		case "crash", "restore", "reencode":
			if op.K == "crash" {
				s.durable, s.durM = Marshal(s.env), s.m.clone()
			}
			if s.durable == nil {
				note = "nothing-durable"
				break
			}
			src := s.durable
			if op.K == "reencode" {
				src, _ = Reencode(s.durable, op.I, false)
				x.Fault("re-encode")
			} else {
				x.Fault("restart")
			}
			e2, err := ParseEnv(src)
			if err != nil {
				x.Violate("restore:parse", "stored envelope bytes do not parse: %v", err)
				return
			}
			s.env, s.m = e2, s.durM.clone()
			restartedAfterSign = true
		case "present":
			c09present(x, s, chunk, strings.Join(hist, " → "), modifiedAfterSign, restartedAfterSign)
		default:
			if isHeaderOp(op.K) {
				note = headerMutate(s.env, op)
				if note == "" {
					modifiedAfterSign = true
				}
			}
		}
		x.Step(i, "slot", op.K, note+"|"+H(Marshal(s.env)))
		if len(x.R.Violations) > 0 {
			break
		}
	}
	x.R.SimTimeS = time.Since(t0).Seconds()
}

func c09present(x *X, s *lifeSlot, chunk int, hist string, modified, restarted bool) {
	if len(s.m.sigs) == 2 && s.m.sigs[0].key != s.m.sigs[1].key {
		// a second party signed the current header and put its signature FIRST. The original
		// signer's key must not verify content it did not sign, on any path.
		orig := s.m.sigs[1]
		cur := snapHeader(s.env.Head)
		if ok, field := cur.covers(orig.snap); !ok {
			for _, ep := range verifyEPs {
				ok2, detail, panicked := verifyVia(x, ep, s.env, orig.key, chunk)
				x.Case(H([]byte(hist)) + "|" + ep + "|cosigned")
				x.Probe("cosigned-envelope-presented")
				if panicked {
					x.Violate("verify-panic:"+ep, "entry point %s panicked: %s\n  history: %s", ep, detail, hist)
				} else if ok2 {
					x.Violate("accepts-unsigned-content:"+ep+":cosigned", "entry point %s reported success for the original signer's key although the signed %s differs: another party's signature of the new header was placed before the original one\n  history: %s", ep, field, hist)
				}
			}
		}
		return
	}
	sameSigner := len(s.m.sigs) > 1
	for _, sg := range s.m.sigs {
		if sg.key != s.m.sigs[0].key {
			sameSigner = false
		}
	}
	if len(s.m.sigs) != 1 && !sameSigner {
		// unsigned: every path must refuse
		if len(s.m.sigs) == 0 {
			for _, ep := range verifyEPs {
				ok, detail, panicked := verifyVia(x, ep, s.env, 0, chunk)
				x.Case(H([]byte(hist)) + "|" + ep + "|unsigned")
				if panicked {
					x.Probe("panic-in-verify")
				}
				if ok {
					x.Violate("accepts-unsigned:"+ep, "entry point %s reported success for an unsigned envelope (%s)\n  history: %s", ep, detail, hist)
				}
			}
		}
		return
	}
	sg := s.m.sigs[0]
	cur := snapHeader(s.env.Head)
	covers, field := cur.covers(sg.snap)
	// The signer signed more than once (again after additions, or after changes): each signature
	// stands for the header it was made over. "All of them still contained" is what success
	// needs on the library paths, which look at every signature; when none of them is contained
	// any more, no path may succeed; in between the command-line paths (which look at one
	// signature) are not asserted.
	coversAny := covers
	if sameSigner {
		x.Probe("presented-with-several-signatures-of-one-signer")
		for _, o := range s.m.sigs[1:] {
			ok, f := cur.covers(o.snap)
			if ok {
				coversAny = true
			} else if covers {
				covers, field = false, f
			}
		}
	}
	valid, why := s.predictValidate(true)
	other := (sg.key + 1) % len(keyJWK)
	if restarted {
		x.Probe("presented-after-restart")
	}
	for _, ep := range verifyEPs {
		impostor := 100 + other*10 + sg.key
		otherNoKid := 200 + other
		nilKey := 300
		ownNoKid, ownRelabelled := 400+sg.key, 500+sg.key
		for _, key := range []int{sg.key, other, -1, impostor, otherNoKid, nilKey, ownNoKid, ownRelabelled} {
			if key == nilKey && !(ep == epLib || ep == epLibSig) {
				continue // a nil key on the CLI paths is the "no key" case
			}
			isLib := ep == epLib || ep == epLibSig
			// expectation
			exp := "" // "ok", "fail" or "" (not asserted)
			switch {
			case key == other || key == impostor || key == otherNoKid || key == nilKey:
				exp = "fail"
			case key == -1 && !isLib:
				exp = "fail" // the CLI paths require a key
			case !covers && (isLib || !coversAny):
				exp = "fail"
			case !covers:
				exp = "" // some but not all of the signer's signatures still hold: not asserted off the library paths
			case valid != "" && !isLib:
				exp = "fail" // the envelope itself is not valid (e.g. stale digest)
			case valid != "" && isLib:
				exp = "" // header-only check by design; not asserted
			default:
				exp = "ok"
			}
			ok, detail, panicked := verifyVia(x, ep, s.env, key, chunk)
			keyName := map[int]string{sg.key: "signer", other: "other", -1: "none", impostor: "impostor-with-signers-kid", otherNoKid: "other-without-kid", nilKey: "nil-key", ownNoKid: "signer-without-kid", ownRelabelled: "signer-under-another-kid"}[key]
			x.Case(H([]byte(hist)) + "|" + ep + "|" + keyName)
			if modified {
				x.R.Nontrivial = true
			}
			if panicked {
				x.Violate("verify-panic:"+ep, "entry point %s panicked: %s\n  history: %s", ep, detail, hist)
				continue
			}
			switch {
			case exp == "ok" && !ok:
				x.Violate("rejects-signed:"+ep+":"+keyName, "entry point %s with the %s key refused an envelope whose header still contains everything that was signed and which validates: %s\n  history: %s", ep, keyName, detail, hist)
			case exp == "fail" && ok:
				reason := "key=" + keyName
				if key != other && key != impostor && key != otherNoKid && key != nilKey && !(key == -1 && !isLib) {
					if !covers {
						reason = "signed " + field + " differs"
					} else {
						reason = "envelope invalid (" + valid + ":" + why + ")"
					}
				}
				x.Violate("accepts-unsigned-content:"+ep+":"+strings.SplitN(reason, " (", 2)[0], "entry point %s with key %s reported success although %s\n  history: %s", ep, keyName, reason, hist)
			}
			if exp == "ok" && ok && modified {
				x.Probe("must-succeed-after-additions")
			}
			if exp == "ok" && ok && key == sg.key && !isLib {
				// the same envelope as another producer would have written it: other member order,
				// white space and escape style. What was signed has not changed.
				if re, err := Reencode(Marshal(s.env), int64(len(hist))*31+int64(key), false); err == nil {
					x.rawPresent = re
					ok2, detail2, panicked2 := verifyVia(x, ep, s.env, key, chunk)
					x.rawPresent = nil
					x.Probe("presented-re-encoded")
					if panicked2 {
						x.Violate("verify-panic:"+ep, "entry point %s panicked on a re-encoded envelope: %s\n  history: %s", ep, detail2, hist)
					} else if !ok2 {
						x.Violate("rejects-signed:"+ep+":re-encoded", "entry point %s accepts the envelope as this library writes it but refuses the same envelope re-encoded (member order, white space, escape style): %s\n  history: %s", ep, trunc(detail2, 300), hist)
					}
				}
			}
			if exp == "fail" && !ok {
				switch {
				case key == other || key == impostor || key == otherNoKid || key == nilKey:
					x.Probe("must-fail-wrong-key")
				case !covers && field == "digest":
					x.Probe("must-fail-digest-after-recalc")
				case !covers:
					x.Probe("must-fail-" + field)
				}
			}
		}
	}
	_ = fmt.Sprint
}
