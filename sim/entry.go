package verifsim

import (
	"bytes"
	"context"
	"encoding/base64"
	"encoding/json"
	"fmt"
	"net/http"
	"net/http/httptest"
	"os"
	"path/filepath"
	"strings"
	"sync"

	"github.com/invopop/gobl"
	"github.com/invopop/gobl/dsig"
	"github.com/invopop/gobl/internal/cli"
)

// Entry points through which the same operation can be requested.
const (
	epLib      = "lib"      // gobl.Envelope method
	epLibSig   = "libsig"   // Envelope.VerifySignature
	epCLI      = "cli"      // internal/cli function over a simulated reader
	epBulk     = "bulk"     // one-request cli.Bulk stream
	epHTTP     = "http"     // HTTP handler (echo, httptest, no socket)
	epHTTPBulk = "httpbulk" // HTTP /bulk handler
	epCobra    = "cobra"    // cobra command with simulated stdin/stdout
)

var verifyEPs = []string{epLib, epLibSig, epCLI, epBulk, epHTTP, epHTTPBulk, epCobra}

var (
	tmpOnce sync.Once
	tmpDir  string
)

// scratchDir returns a per-process directory for the few real files the cobra
// commands insist on (key files). It is removed by the OS-level cleanup in check.
func scratchDir() string {
	tmpOnce.Do(func() {
		base := os.Getenv("VERIF_SCRATCH")
		if base == "" {
			base = "/var/tmp"
		}
		tmpDir = filepath.Join(base, fmt.Sprintf("verifsim-%d", os.Getpid()))
		os.MkdirAll(tmpDir, 0o755)
		for i := range keyJWK {
			os.WriteFile(filepath.Join(tmpDir, fmt.Sprintf("key%d.pub.jwk", i)), []byte(PubKeyJSON(i)), 0o644)
			os.WriteFile(filepath.Join(tmpDir, fmt.Sprintf("key%d.jwk", i)), []byte(PrivKeyJSON(i)), 0o600)
		}
	})
	return tmpDir
}

// CleanupScratch removes the per-process scratch directory.
func CleanupScratch() {
	if tmpDir != "" {
		os.RemoveAll(tmpDir)
	}
}

func chunkedReader(x *X, name string, data []byte, chunk int) *SimReader {
	r := NewSimReader(x, name, data)
	if chunk > 0 {
		r.Chunks = []int{chunk}
	}
	// half of the streams hand over their last bytes together with io.EOF
	r.EOFWithData = x != nil && x.P != nil && (x.P.Run+int64(len(data)))%2 == 0
	// and some begin with a read that delivers nothing
	r.ZeroFirst = x != nil && x.P != nil && (x.P.Run+int64(len(data)))%5 == 0
	return r
}

// bulkOne runs a single request through cli.Bulk and returns its response.
func bulkOne(x *X, req map[string]any, chunk int, defKey *dsig.PrivateKey) (*cli.BulkResponse, error) {
	line, _ := json.Marshal(req)
	in := chunkedReader(x, "bulk-in", append(line, '\n'), chunk)
	var first, final *cli.BulkResponse
	n := 0
	for res := range cli.Bulk(context.Background(), &cli.BulkOptions{In: in, DefaultPrivateKey: defKey}) {
		n++
		if res.IsFinal {
			final = res
		} else if first == nil {
			first = res
		}
	}
	if first == nil || final == nil || n != 2 {
		return first, fmt.Errorf("bulk stream with one request produced %d responses (first=%v final=%v)", n, first != nil, final != nil)
	}
	return first, nil
}

// httpDo posts to the in-process HTTP handler.
func httpDo(path string, body []byte, key *dsig.PrivateKey) (int, []byte) {
	req := httptest.NewRequest(http.MethodPost, path, bytes.NewReader(body))
	req.Header.Set("Content-Type", "application/json")
	rec := httptest.NewRecorder()
	HTTPHandler(key).ServeHTTP(rec, req)
	return rec.Code, rec.Body.Bytes()
}

// verifyVia presents an envelope to one verification entry point.
// keyIdx < 0 means "no key". Returns success and a short description.
func verifyVia(x *X, ep string, env *gobl.Envelope, keyIdx int, chunk int) (ok bool, detail string, panicked bool) {
	var pub *dsig.PublicKey
	pubJSON := ""
	switch {
	case keyIdx >= 500:
		// the signer's own key filed under another key id (a relabelled copy from a key store)
		var m map[string]any
		json.Unmarshal([]byte(PubKeyJSON(keyIdx-500)), &m)
		m["kid"] = "relabelled-" + fmt.Sprint(m["kid"])
		b, _ := json.Marshal(m)
		pubJSON = string(b)
		pub = new(dsig.PublicKey)
		if err := json.Unmarshal(b, pub); err != nil {
			return false, "harness: " + err.Error(), false
		}
	case keyIdx >= 400:
		// the signer's own key without a key id
		pubJSON = PubKeyNoKidJSON(keyIdx - 400)
		pub = new(dsig.PublicKey)
		if err := json.Unmarshal([]byte(pubJSON), pub); err != nil {
			return false, "harness: " + err.Error(), false
		}
	case keyIdx >= 300:
		// a nil key handed to the library
		pub = nil
		pubJSON = "null"
	case keyIdx >= 200:
		// a valid public key without a key id
		pubJSON = PubKeyNoKidJSON(keyIdx - 200)
		pub = new(dsig.PublicKey)
		if err := json.Unmarshal([]byte(pubJSON), pub); err != nil {
			return false, "harness: " + err.Error(), false
		}
	case keyIdx >= 100:
		// an impostor: other key material under the signer's key id
		pubJSON = ImpostorPubJSON((keyIdx-100)/10, (keyIdx-100)%10)
		pub = new(dsig.PublicKey)
		if err := json.Unmarshal([]byte(pubJSON), pub); err != nil {
			return false, "harness: " + err.Error(), false
		}
	case keyIdx >= 0:
		pub = PubKey(keyIdx)
		pubJSON = PubKeyJSON(keyIdx)
	}
	defer func() {
		if r := recover(); r != nil {
			ok, detail, panicked = false, fmt.Sprint("panic: ", r), true
		}
	}()
	data := Marshal(env)
	if x.rawPresent != nil {
		data = x.rawPresent
	}
	switch ep {
	case epLib:
		var err error
		if pub != nil || keyIdx >= 300 {
			err = env.Verify(pub)
		} else {
			err = env.Verify()
		}
		return err == nil, errStr(err), false
	case epLibSig:
		if len(env.Signatures) == 0 {
			return false, "unsigned", false
		}
		var err error
		for _, s := range env.Signatures {
			if pub != nil || keyIdx >= 300 {
				err = env.VerifySignature(s, pub)
			} else {
				err = env.VerifySignature(s)
			}
			if err != nil {
				break
			}
		}
		return err == nil, errStr(err), false
	case epCLI:
		err := cli.Verify(context.Background(), chunkedReader(x, "verify-in", data, chunk), pub)
		return err == nil, errStr(err), false
	case epBulk:
		pl := map[string]any{"data": data}
		if pub != nil {
			pl["publickey"] = json.RawMessage(pubJSON)
		}
		res, err := bulkOne(x, map[string]any{"action": "verify", "req_id": "v", "payload": pl}, chunk, nil)
		if err != nil {
			return false, err.Error(), false
		}
		if res.Error != nil {
			return false, res.Error.Error(), false
		}
		return strings.Contains(string(res.Payload), `"ok":true`), string(res.Payload), false
	case epHTTP:
		pl := map[string]any{"data": data}
		if pub != nil {
			pl["publickey"] = json.RawMessage(pubJSON)
		}
		b, _ := json.Marshal(pl)
		code, body := httpDo("/verify", b, nil)
		return code == 200 && strings.Contains(string(body), `"ok":true`), fmt.Sprintf("%d %s", code, trunc(string(body), 200)), false
	case epHTTPBulk:
		pl := map[string]any{"data": data}
		if pub != nil {
			pl["publickey"] = json.RawMessage(pubJSON)
		}
		b, _ := json.Marshal(map[string]any{"action": "verify", "req_id": "v", "payload": pl})
		code, body := httpDo("/bulk", append(b, '\n'), nil)
		if code != 200 {
			return false, fmt.Sprintf("%d", code), false
		}
		dec := json.NewDecoder(bytes.NewReader(body))
		var first cli.BulkResponse
		if err := dec.Decode(&first); err != nil {
			return false, "bad bulk response: " + err.Error(), false
		}
		if first.Error != nil {
			return false, first.Error.Error(), false
		}
		return strings.Contains(string(first.Payload), `"ok":true`), string(first.Payload), false
	case epCobra:
		dir := scratchDir()
		keyFile := filepath.Join(dir, "nokey.pub.jwk")
		if keyIdx >= 100 {
			keyFile = filepath.Join(dir, fmt.Sprintf("impostor%d.pub.jwk", keyIdx))
			os.WriteFile(keyFile, []byte(pubJSON), 0o644)
		} else if keyIdx >= 0 {
			keyFile = filepath.Join(dir, fmt.Sprintf("key%d.pub.jwk", keyIdx))
		}
		out, errOut := NewSimWriter(x, "stdout"), NewSimWriter(x, "stderr")
		err := Cobra(context.Background(), []string{"verify", "--key", keyFile, "-"}, chunkedReader(x, "stdin", data, chunk), out, errOut)
		return err == nil, errStr(err), false
	}
	return false, "unknown entry point", false
}

var _ = base64.StdEncoding
