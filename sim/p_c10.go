package verifsim

import (
	"bytes"
	"fmt"
	"strings"
	"time"

	"github.com/invopop/gobl"
	"github.com/invopop/gobl/dsig"
)

// C10 — envelope lifecycle outcomes follow the abstract state over any history.
// Refinement of the envelope API against the reference model in lifemodel.go,
// with persist/restore (crash-restart), lost writes, re-encoding and damaged
// signature lists as faults.

var c10bases = []string{
	"examples/es/invoice-es-es", "examples/es/credit-note-es-es-tbai", "examples/es/order", "examples/es/delivery",
	"examples/es/payment", "examples/es/party", "examples/mx/invoice", "examples/pt/invoice",
	"examples/de/invoice-de-de", "examples/it/freelance", "note/examples/message", "examples/gr/invoice-el-el",
}

// the enumerated alphabet (coverage floor): every sequence up to length L.
var c10alpha = []Op{
	{K: "calc"},
	{K: "edit", S: "qty", S2: "3", I: 0},
	{K: "edit", S: "live-qty"},
	{K: "edit", S: "invalid"},
	{K: "edit", S: "rmcode"},
	{K: "sign", I: 0},
	{K: "sign", I: 1, S: "pubonly"},
	{K: "unsign"},
	{K: "stamp", S: "sim-prv-a", S2: "v1"},
	{K: "stamp-alter", S2: "v2"},
	{K: "link", S: "pdf", S2: "https://example.com/doc.pdf"},
	{K: "validate"},
	{K: "verify", S: "key0"},
	{K: "crash"}, // persist + restore
	{K: "corrupt-sigs", S: "empty"},
}

// c10core is the smaller alphabet used for the longest enumerated histories.
var c10core = []Op{
	{K: "calc"},
	{K: "edit", S: "qty", S2: "3", I: 0},
	{K: "sign", I: 0},
	{K: "unsign"},
	{K: "stamp", S: "sim-prv-a", S2: "v1"},
	{K: "validate"},
	{K: "verify", S: "key0"},
	{K: "crash"},
}

// enumeration plan: every sequence over the full alphabet up to fullLen, and
// (thorough) every sequence over the core alphabet of the lengths above it up to 6.
func c10enumLen(c *Ctx) int {
	if c.Tier == "thorough" {
		return 4
	}
	return 3
}

func c10coreLens(c *Ctx) []int {
	if c.Tier == "thorough" {
		return []int{5, 6}
	}
	return nil
}

const c10group = 64

func c10enumCount(c *Ctx) int64 {
	n := int64(0)
	p := int64(1)
	for l := 1; l <= c10enumLen(c); l++ {
		p *= int64(len(c10alpha))
		n += p
	}
	for _, l := range c10coreLens(c) {
		p = 1
		for i := 0; i < l; i++ {
			p *= int64(len(c10core))
		}
		n += p
	}
	return n
}

func c10enumBases(c *Ctx) []string {
	return []string{"examples/es/invoice-es-es", "examples/pt/invoice", "examples/es/order"}
}

func decodeHistory(alpha []Op, l int, i int64) []Op {
	ops := make([]Op, l)
	for j := l - 1; j >= 0; j-- {
		ops[j] = alpha[i%int64(len(alpha))]
		ops[j].ID = j + 1
		i /= int64(len(alpha))
	}
	return ops
}

// c10history decodes the i-th enumerated history.
func c10history(c *Ctx, i int64) []Op {
	p := int64(1)
	for l := 1; l <= c10enumLen(c); l++ {
		p *= int64(len(c10alpha))
		if i < p {
			return decodeHistory(c10alpha, l, i)
		}
		i -= p
	}
	for _, l := range c10coreLens(c) {
		p = 1
		for k := 0; k < l; k++ {
			p *= int64(len(c10core))
		}
		if i < p {
			return decodeHistory(c10core, l, i)
		}
		i -= p
	}
	return nil
}

func init() {
	register(&PropDef{
		ID:    "C10",
		Level: "exploration",
		Rule: "histories of envelope operations; sign and validate steps also through the command-line, bulk and HTTP paths on the serialised envelope; sign, unsign, validate and verify must leave the header's own entries byte-identical (insert, calculate, content edits, sign with valid / public-only / empty keys, unsign, stamps, links, tags, meta, notes, identifier change, validate, verify, persist, crash-restart, lost write, re-encode, damaged signature list on disk) checked step by step against an executable reference model; " +
			"check 'enum' enumerates every sequence over a 15-operation alphabet up to length 3 (quick) / 4 (thorough), and in thorough every sequence of length 5 and 6 over an 8-operation core alphabet, on three base documents (two invoices, one order), check 'life' draws longer seeded histories over 12 base documents; a case is one history, distinct by its operation sequence and base document, non-trivial when it contains at least one state-changing operation followed by an observation",
		Assumptions: []string{
			"which documents are structurally valid is asked of the implementation on a fresh parse of the same bytes; the model predicts how that fact, the digest fact, the signature list and the header combine over a history",
			"after a signing that fails before a signature is appended, both 'signatures unchanged' and 'unsigned' are accepted (the statement is silent)",
		},
		RequiredProbes: []string{"sign-rejected-stale-digest", "sign-rejected-invalid-doc", "failed-sign-rolled-back", "stamp-on-unsigned-rejected", "restore-after-sign", "verify-header-mismatch", "damaged-sigs-restored"},
		Checks: []*CheckDef{
			{
				Name:   "enum",
				Bubble: true,
				NumRuns: func(c *Ctx) int64 {
					return (c10enumCount(c)*int64(len(c10enumBases(c))) + c10group - 1) / c10group
				},
				Plan: func(c *Ctx, run int64) *Plan {
					return &Plan{Prop: "C10", Check: "enum", Seed: c.Seed, Run: run, Knobs: map[string]int64{"from": run * c10group, "to": (run + 1) * c10group}}
				},
				Exec:       execC10enum,
				Exhaustive: func(c *Ctx) bool { return true },
				NoShrink:   true,
			},
			{
				Name:   "life",
				Bubble: true,
				NumRuns: func(c *Ctx) int64 {
					if c.Tier == "thorough" {
						return 150000
					}
					return 3000
				},
				Plan: planC10life,
				Exec: func(x *X) { execLife(x, x.P.Str["doc"], x.P.Ops, lifeOracles{model: true}) },
			},
		},
	})
}

func execC10enum(x *X) {
	from, to := x.P.Knob("from", 0), x.P.Knob("to", 0)
	bases := c10enumBases(x.C)
	total := c10enumCount(x.C) * int64(len(bases))
	for i := from; i < to && i < total; i++ {
		base := bases[i%int64(len(bases))]
		ops := c10history(x.C, i/int64(len(bases)))
		nv := len(x.R.Violations)
		resetGoogleUUID()
		execLife(x, base, ops, lifeOracles{model: true})
		x.Case(fmt.Sprintf("%s|%d", base, i/int64(len(bases))))
		if len(x.R.Violations) > nv {
			// hand the minimiser an explicit single-history plan
			x.R.Replan = &Plan{Prop: "C10", Check: "life", Seed: x.P.Seed, Run: i, Str: map[string]string{"doc": base}, Ops: ops}
			return
		}
	}
}

type wop struct {
	op Op
	w  int
}

func planC10life(c *Ctx, run int64) *Plan {
	r := RNG(c.Seed, run, 10)
	base := c10bases[int(run)%len(c10bases)]
	p := &Plan{Prop: "C10", Check: "life", Seed: c.Seed, Run: run, Str: map[string]string{"doc": base}}
	n := 3 + r.IntN(23)
	// swarm: per-run class weights
	wt := func() int { return Pick(r, []int{0, 1, 1, 2, 5}) }
	wCalc, wEdit, wSign, wBadSign, wUnsign, wHdr, wObs, wStore, wCorrupt := 3*wt(), 3*wt(), 4*wt(), wt(), wt(), 4*wt(), 5*wt()+1, 3*wt(), wt()
	for i := 0; i < n; i++ {
		var op Op
		tot := wCalc + wEdit + wSign + wBadSign + wUnsign + wHdr + wObs + wStore + wCorrupt
		v := r.IntN(tot)
		switch {
		case v < wCalc:
			op = Op{K: Pick(r, []string{"calc", "calc", "calc", "insert"})}
		case v < wCalc+wEdit:
			op = Op{K: "edit", S: Pick(r, []string{"qty", "note", "rmcode", "setcode", "invalid", "fixinvalid", "price", "custname", "live-qty", "live-note", "nocalc", "fixnocalc"}), I: int64(r.IntN(4))}
			switch op.S {
			case "qty":
				op.S2 = Pick(r, []string{"2", "3", "0.5"})
			case "price":
				op.S2 = Pick(r, []string{"10.00", "99.99"})
			case "note":
				op.S2 = "lifecycle note"
			case "setcode":
				op.S2 = Pick(r, []string{"LIFE-1", "LIFE-2"})
			case "custname":
				op.S2 = "Other Customer"
			}
		case v < wCalc+wEdit+wSign:
			op = Op{K: "sign", I: int64(r.IntN(3)), S3: Pick(r, []string{"", "", "", epCLI, epBulk, epHTTPBulk, epCobra})}
		case v < wCalc+wEdit+wSign+wBadSign:
			op = Op{K: "sign", I: int64(r.IntN(3)), S: Pick(r, []string{"pubonly", "empty"})}
		case v < wCalc+wEdit+wSign+wBadSign+wUnsign:
			op = Op{K: "unsign"}
		case v < wCalc+wEdit+wSign+wBadSign+wUnsign+wHdr:
			k := Pick(r, headerOpKinds)
			op = Op{K: k, I: int64(r.IntN(4))}
			switch k {
			case "stamp", "stamp-alter", "stamp-dup":
				op.S, op.S2 = Pick(r, stampProviders), Pick(r, []string{"v1", "v2", "v3"})
			case "link", "link-alter":
				op.S, op.S2 = Pick(r, linkKeys), Pick(r, linkURLs)
			case "tag":
				op.S = Pick(r, []string{"t1", "t2"})
			case "meta", "meta-rm":
				op.S, op.S2 = Pick(r, []string{"m1", "m2"}), Pick(r, []string{"x", "y"})
			case "notes":
				op.S = Pick(r, []string{"", "n1", "n2", "not n1", "n2 and more"})
			}
		case v < wCalc+wEdit+wSign+wBadSign+wUnsign+wHdr+wObs:
			op = Op{K: Pick(r, []string{"validate", "validate", "verify"}), I: int64(r.IntN(4))}
			if op.K == "verify" {
				op.S = Pick(r, []string{"nokeys", "key0", "key1", "key2", "all"})
			}
		case v < wCalc+wEdit+wSign+wBadSign+wUnsign+wHdr+wObs+wStore:
			op = Op{K: Pick(r, []string{"persist", "restore", "crash", "lostwrite", "reencode"}), I: int64(r.Uint32())}
		default:
			op = Op{K: "corrupt-sigs", S: Pick(r, []string{"empty", "null", "garbage", "truncated", "append-empty", "number"})}
		}
		op.ID = i + 1
		p.Ops = append(p.Ops, op)
	}
	p.Ops = append(p.Ops, Op{ID: n + 1, K: "validate", I: 1}, Op{ID: n + 2, K: "verify", S: "key0"})
	return p
}

// lifeOracles selects which clauses are checked by execLife.
type lifeOracles struct {
	model bool // C10: every outcome must match the model
}

func newLifeSlot(x *X, name string) *lifeSlot {
	d := x.C.Corpus.Get(name)
	if d == nil || d.Err != "" {
		x.R.Infra = "corpus document missing: " + name
		return nil
	}
	env, err := ParseEnv(d.Env)
	if err != nil {
		x.R.Infra = "corpus envelope does not parse: " + err.Error()
		return nil
	}
	s := &lifeSlot{name: name, kind: d.Kind, env: env, m: &lifeModel{}}
	s.markCalculated()
	return s
}

func (s *lifeSlot) modelSigned() bool { return len(s.m.sigs) > 0 }

// execLife interprets a history against the model.
func execLife(x *X, base string, ops []Op, or lifeOracles) {
	s := newLifeSlot(x, base)
	if s == nil {
		return
	}
	d := x.C.Corpus.Get(base)
	t0 := time.Now()
	changed := false
	for i, op := range ops {
		x.Entropy(op.ID)
		note := ""
		bad := func(sig, format string, a ...any) {
			hist := make([]string, 0, i+1)
			for _, o := range ops[:i+1] {
				k := o.K
				if o.S != "" {
					k += ":" + o.S
				}
				hist = append(hist, k)
			}
			x.Violate(sig, "%s\n  history on %s: %s\n  model before this step: %s", fmt.Sprintf(format, a...), base, strings.Join(hist, " → "), s.abstract())
		}
		// sign, unsign, validate and verify are not header operations: whatever their outcome,
		// the header's own entries (identifier, stamps, links, tags, meta, notes) stay as they were
		var hdrBefore []byte
		switch op.K {
		case "sign", "unsign", "validate", "verify":
			if s.env.Head != nil && !(op.K == "sign" && op.S3 != "") {
				hv, _ := ParseJV(Marshal(s.env.Head))
				if hv != nil {
					hv.Del("dig")
					hdrBefore = hv.Encode(nil)
				}
			}
		}
		switch op.K {
		case "insert":
			o2, err := ParseEnv(d.Env)
			if err != nil {
				break
			}
			err = s.env.Insert(o2.Document)
			if err != nil {
				bad("insert:error", "inserting a valid corpus document failed: %v", err)
				break
			}
			s.markCalculated()
			changed = true
		case "calc":
			f := factsOf(s.env)
			hdrWhole := Marshal(s.env.Head)
			var err error
			if p := safely(func() { err = s.env.Calculate() }); p != "" {
				note = "panic"
				break
			}
			if err != nil {
				// a calculation that fails has not produced a document to take a digest of: the
				// header, digest included, stays as it was
				if after := Marshal(s.env.Head); !bytes.Equal(hdrWhole, after) {
					bad("header-changed-by:failed-calc:"+GDiff(hdrWhole, after), "a failed Calculate changed the header; %s", DiffDetail(hdrWhole, after))
				}
			}
			if (err == nil) != f.calcOK {
				bad("calc:outcome", "calculate returned %v but a fresh copy of the same document calculates ok=%v", err, f.calcOK)
			}
			if err == nil {
				s.markCalculated()
			} else {
				note = "err:" + errKey(err)
				if k := errKey(err); k != "calculation" {
					bad("calc:error-key:"+k, "calculation failure reported with key %q: %v", k, err)
				}
			}
		case "edit":
			if lifeEdit(s.env, op) {
				changed = true
				if strings.HasPrefix(op.S, "live-") {
					s.m.liveEdited = true
				}
			} else {
				note = "noop"
			}
		case "sign":
			if op.S3 != "" && op.S == "" && !s.m.garbageSigs {
				// the same request made through an entry point: parse, calculate, sign
				hist := make([]string, 0, i+1)
				for _, o := range ops[:i+1] {
					hist = append(hist, o.K+":"+o.S+o.S3)
				}
				if got := signEntryOracle(x, op.S3, Marshal(s.env), int(op.I), int(op.I)*7, base+": "+strings.Join(hist, " → ")); got != nil {
					s.env = got
					s.markCalculated()
					s.m.sigs = append(s.m.sigs, sigRec{key: int(op.I), snap: snapHeader(got.Head), real: true})
					changed = true
				}
				note = "via:" + op.S3
				break
			}
			before := len(s.env.Signatures)
			wasSigned := s.modelSigned()
			key := keyFor(op)
			snap := snapHeader(s.env.Head)
			// prediction
			want := ""
			if op.S == "pubonly" || op.S == "empty" {
				want = "signature"
			} else {
				want, _ = s.predictValidate(true)
			}
			var err error
			if p := safely(func() { err = s.env.Sign(key) }); p != "" {
				if s.m.garbageSigs {
					note = "panic-garbage"
					break
				}
				bad("sign:panic", "Sign panicked: %s", p)
				break
			}
			got := errKey(err)
			after := len(s.env.Signatures)
			if s.m.garbageSigs {
				note = "garbage"
				if err != nil {
					s.m.sigs = nil
					if after == 0 {
						s.m.garbageSigs = false
					}
				}
				break
			}
			if or.model && got != want {
				bad("sign:outcome:"+want+"/"+got, "Sign returned %q (%v) but the model predicts %q", got, err, want)
			}
			if err == nil {
				if after != before+1 {
					bad("sign:count", "successful Sign changed the signature count from %d to %d", before, after)
				}
				s.m.sigs = append(s.m.sigs, sigRec{key: int(op.I), snap: snap, real: true})
				changed = true
			} else {
				switch got {
				case "digest":
					x.Probe("sign-rejected-stale-digest")
				case "validation":
					x.Probe("sign-rejected-invalid-doc")
				case "signature":
					x.Probe("sign-rejected-bad-key")
				}
				// a failed signing leaves no new signature behind
				if after > before {
					bad("sign:failed-but-kept", "Sign failed with %v yet the signature list grew from %d to %d", err, before, after)
				}
				if want == "signature" {
					// failed before anything was appended: unchanged or unsigned are both accepted
					if after != before && after != 0 {
						bad("sign:failed-count", "failed Sign left %d signatures (had %d)", after, before)
					}
				} else {
					x.Probe("failed-sign-rolled-back")
					// the signing was attempted and refused by validation: the statement says
					// "a failed signing leaves the envelope unsigned"
					if after != 0 {
						bad("sign:failed-but-still-signed", "Sign failed with %v but the envelope still carries %d signature(s) (had %d): a failed signing must leave the envelope unsigned", err, after, before)
					}
				}
				if after == 0 {
					s.m.sigs = nil
				}
				if wasSigned && after == 0 {
					x.Probe("failed-resign-dropped-all-signatures")
				}
			}
		case "unsign":
			s.env.Unsign()
			s.m.sigs = nil
			s.m.garbageSigs = false
			if s.env.Signed() || len(s.env.Signatures) != 0 {
				bad("unsign:still-signed", "Unsign left %d signatures", len(s.env.Signatures))
			}
		case "validate":
			signed := len(s.env.Signatures) > 0
			want, why := s.predictValidate(signed)
			var err error
			if p := safely(func() { err = s.env.Validate() }); p != "" {
				if s.m.garbageSigs {
					note = "panic-garbage"
					break
				}
				bad("validate:panic", "Validate panicked: %s", p)
				break
			}
			got := errKey(err)
			if s.m.garbageSigs {
				note = "garbage:" + got
				break
			}
			if or.model && got != want {
				bad("validate:outcome:"+want+"/"+got, "Validate returned %q (%v) but the model predicts %q (%s)", got, err, want, why)
			}
			if why == "header:stamps-unsigned" && got == "validation" {
				x.Probe("stamp-on-unsigned-rejected")
			}
			if got == "" && changed {
				x.R.Nontrivial = true
			}
			note = got
			if or.model && op.I%2 == 1 {
				// the same question asked through the command line, bulk and HTTP paths
				validateEntryOracle(x, Marshal(s.env), int(op.I)*5, base+" after "+fmt.Sprint(i)+" steps, model: "+s.abstract())
				if op.I == 3 {
					buildEntryOracle(x, Marshal(s.env), int(op.I)*5, base+" after "+fmt.Sprint(i)+" steps, model: "+s.abstract())
				}
			}
		case "verify":
			var keys []*dsig.PublicKey
			var kidx []int
			switch op.S {
			case "key0":
				kidx = []int{0}
			case "key1":
				kidx = []int{1}
			case "key2":
				kidx = []int{2}
			case "all":
				kidx = []int{0, 1, 2}
			}
			for _, k := range kidx {
				keys = append(keys, PubKey(k))
			}
			cur := snapHeader(s.env.Head)
			want := true
			whyNot := ""
			if len(s.m.sigs) == 0 {
				want, whyNot = false, "unsigned"
			}
			for _, sg := range s.m.sigs {
				if len(kidx) > 0 {
					m := false
					for _, k := range kidx {
						if k == sg.key {
							m = true
						}
					}
					if !m {
						want, whyNot = false, "key"
						continue
					}
				}
				if ok, f := cur.covers(sg.snap); !ok {
					want, whyNot = false, f
					x.Probe("verify-header-mismatch")
				}
			}
			var err error
			if p := safely(func() { err = s.env.Verify(keys...) }); p != "" {
				if s.m.garbageSigs {
					note = "panic-garbage"
					// a damaged list that was accepted at parse time is reported by the restore step
					break
				}
				bad("verify:panic", "Verify panicked: %s", p)
				break
			}
			if s.m.garbageSigs {
				note = "garbage"
				break
			}
			if or.model && (err == nil) != want {
				bad(fmt.Sprintf("verify:outcome:%v/%v:%s", want, err == nil, whyNot), "Verify(%s) returned %v but the model predicts success=%v (%s)", op.S, err, want, whyNot)
			}
			if err == nil && changed {
				x.R.Nontrivial = true
			}
			note = fmt.Sprint(err == nil)
		case "persist":
			s.prevDur, s.prevM = s.durable, s.durM
			s.durable, s.durM = Marshal(s.env), s.m.clone()
		case "lostwrite":
			if s.durable != nil {
				x.Fault("lost-write")
			}
		case "crash", "restore", "reencode":
			if op.K == "crash" {
				s.durable, s.durM = Marshal(s.env), s.m.clone()
			}
			if s.durable == nil {
				note = "nothing-durable"
				break
			}
			src := s.durable
			if op.K == "reencode" {
				var err error
				src, err = Reencode(s.durable, op.I, false)
				if err != nil {
					x.R.Infra = err.Error()
					return
				}
				x.Fault("re-encode")
			} else {
				x.Fault("restart")
			}
			e2, err := ParseEnv(src)
			if err != nil {
				bad("restore:parse", "stored envelope bytes do not parse: %v", err)
				break
			}
			s.env, s.m = e2, s.durM.clone()
			if len(s.m.sigs) > 0 {
				x.Probe("restore-after-sign")
			}
		case "corrupt-sigs":
			cur := Marshal(s.env)
			dam, ok := corruptSigs(cur, op.S)
			if !ok {
				note = "noop"
				break
			}
			x.Fault("damaged-signature-list")
			e2, err := ParseEnv(dam)
			if err != nil {
				note = "refused"
				x.Probe("damaged-sigs-refused")
				break // the parse was refused: the live envelope stays
			}
			x.Probe("damaged-sigs-restored")
			s.env = e2
			s.m = s.m.clone()
			s.m.garbageSigs = true
			if ok, why := realSigs(s.env); !ok {
				// The reader kept an entry that is not a signature. It must then never
				// pass as one: the envelope is refused by validation and verification
				// fails cleanly.
				var verr, v1, v2 error
				p := safely(func() { verr = s.env.Validate(); v1 = s.env.Verify(); v2 = s.env.Verify(PubKey(0)) })
				switch {
				case p != "":
					bad("sigs:not-real:panic:"+op.S, "an envelope restored from bytes whose signature list was damaged (%s: %s) reports Signed()=%v and makes Validate/Verify panic: %s", op.S, why, s.env.Signed(), p)
				case verr == nil:
					bad("sigs:not-real:validates:"+op.S, "an envelope whose signature list holds a non-signature (%s: %s) validates as a signed envelope", op.S, why)
				case v1 == nil || v2 == nil:
					bad("sigs:not-real:verifies:"+op.S, "an envelope whose signature list holds a non-signature (%s: %s) verifies", op.S, why)
				default:
					x.Probe("non-signature-refused")
				}
			}
		default:
			if isHeaderOp(op.K) {
				note = headerMutate(s.env, op)
				if note == "" {
					changed = true
				}
			}
		}
		// invariants after every step
		if hdrBefore != nil && s.env.Head != nil {
			if hv, _ := ParseJV(Marshal(s.env.Head)); hv != nil {
				hv.Del("dig")
				if after := hv.Encode(nil); !bytes.Equal(hdrBefore, after) {
					bad("header-changed-by:"+op.K+":"+GDiff(hdrBefore, after), "%s changed the header's own entries; %s", op.K, DiffDetail(hdrBefore, after))
				}
			}
		}
		if !s.m.garbageSigs {
			if ok, why := realSigs(s.env); !ok {
				bad("sigs:not-real", "signature list holds a non-signature: %s", why)
			}
			if len(s.env.Signatures) != len(s.m.sigs) {
				bad("sigs:count", "envelope has %d signatures, model has %d", len(s.env.Signatures), len(s.m.sigs))
			}
		}
		x.State(s.abstract())
		x.Step(i, "slot", op.K, note+"|"+H(Marshal(s.env)))
		if len(x.R.Violations) > 0 {
			break
		}
	}
	x.R.SimTimeS += time.Since(t0).Seconds()
}

var _ = bytes.Equal
var _ *gobl.Envelope
