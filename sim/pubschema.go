package verifsim

import (
	"encoding/json"
	"os"
	"path/filepath"
	"sort"
	"strings"
	"sync"
)

// The published JSON schema (data/schemas/**) as the source of "every member
// of the document model": for an object of a document, the members its schema
// definition lists and the object does not carry, each with a sample value of
// the right kind. The corpus-derived catalogue only knows members some shipped
// document happens to use.

type pubSchemaProp struct {
	Ref    string          `json:"$ref"`
	Type   string          `json:"type"`
	Format string          `json:"format"`
	Items  *pubSchemaProp  `json:"items"`
	Props  json.RawMessage `json:"properties"`
	OneOf  []struct {
		Const any `json:"const"`
	} `json:"oneOf"`
	AnyOf []struct {
		Const any `json:"const"`
	} `json:"anyOf"`
}

type pubSchemaDef struct {
	Type       string                    `json:"type"`
	Properties map[string]*pubSchemaProp `json:"properties"`
	Required   []string                  `json:"required"`
}

type pubSchemaFile struct {
	ID   string                   `json:"$id"`
	Ref  string                   `json:"$ref"`
	Defs map[string]*pubSchemaDef `json:"$defs"`
}

var (
	pubSchMu    sync.Mutex
	pubSchFiles = map[string]*pubSchemaFile{}
)

const goblSchemaBase = "https://gobl.org/draft-0/"

func pubSchemaLoad(id string) *pubSchemaFile {
	pubSchMu.Lock()
	defer pubSchMu.Unlock()
	if f, ok := pubSchFiles[id]; ok {
		return f
	}
	var f *pubSchemaFile
	if strings.HasPrefix(id, goblSchemaBase) {
		if b, err := os.ReadFile(filepath.Join(pubRepo, "data/schemas", strings.TrimPrefix(id, goblSchemaBase)+".json")); err == nil {
			f = new(pubSchemaFile)
			if json.Unmarshal(b, f) != nil {
				f = nil
			}
		}
	}
	pubSchFiles[id] = f
	return f
}

// schemaDefAt resolves a reference ("#/$defs/X" inside file, or an absolute id) to its definition.
func schemaDefAt(file *pubSchemaFile, ref string) (*pubSchemaFile, *pubSchemaDef, string) {
	if strings.HasPrefix(ref, "#/$defs/") {
		if file == nil {
			return nil, nil, ""
		}
		return file, file.Defs[strings.TrimPrefix(ref, "#/$defs/")], file.ID + ref
	}
	f := pubSchemaLoad(ref)
	if f == nil {
		return nil, nil, ""
	}
	return f, f.Defs[strings.TrimPrefix(f.Ref, "#/$defs/")], ref
}

// schemaSample builds a value of the kind a property asks for.
func schemaSample(file *pubSchemaFile, p *pubSchemaProp, depth int) *JV {
	if p == nil {
		return nil
	}
	for _, c := range append(p.OneOf, p.AnyOf...) {
		if s, ok := c.Const.(string); ok && s != "" {
			return JStr(s)
		}
	}
	if p.Ref != "" {
		switch strings.TrimPrefix(p.Ref, goblSchemaBase) {
		case "num/amount":
			return JStr("12.34")
		case "num/percentage":
			return JStr("5.0%")
		case "cal/date":
			return JStr("2024-03-04")
		case "cal/date-time":
			return JStr("2024-03-04T05:06:07")
		case "cal/time":
			return JStr("05:06:07")
		case "cbc/code":
			return JStr("SIM1")
		case "cbc/key":
			return JStr("sim-key")
		case "currency/code":
			return JStr("EUR")
		case "l10n/iso-country-code", "l10n/tax-country-code", "l10n/code":
			return JStr("ES")
		case "i18n/string":
			return &JV{K: 'o', M: []JM{{"en", JStr("simulated")}}}
		case "cbc/meta", "tax/extensions":
			return &JV{K: 'o', M: []JM{{"sim-key", JStr("v")}}}
		case "schema/object":
			return nil
		}
		f2, def, _ := schemaDefAt(file, p.Ref)
		if def == nil {
			return nil
		}
		switch def.Type {
		case "string":
			return JStr("sim")
		case "object":
			if depth <= 0 {
				return nil
			}
			o := &JV{K: 'o'}
			for _, r := range def.Required {
				v := schemaSample(f2, def.Properties[r], depth-1)
				if v == nil {
					return nil
				}
				o.M = append(o.M, JM{r, v})
			}
			if len(o.M) == 0 {
				// nothing required: give it one plain member so that it is not empty
				for _, k := range SortedKeys(def.Properties) {
					if strings.HasPrefix(k, "$") || k == "uuid" {
						continue
					}
					if v := schemaSample(f2, def.Properties[k], 0); v != nil && v.K == 's' {
						o.M = append(o.M, JM{k, v})
						break
					}
				}
			}
			if len(o.M) == 0 {
				return nil
			}
			return o
		case "array":
			return nil
		}
		return nil
	}
	switch p.Type {
	case "string":
		switch p.Format {
		case "date":
			return JStr("2024-03-04")
		case "date-time":
			return JStr("2024-03-04T05:06:07Z")
		case "email":
			return JStr("sim@example.com")
		case "uri":
			return JStr("https://example.com/sim")
		case "uuid":
			return JStr("0190a63a-1a80-7e1e-a868-08c7859b6470")
		case "byte":
			return JStr("c2lt")
		}
		return JStr("simulated text")
	case "boolean":
		return &JV{K: 't'}
	case "integer", "number":
		return &JV{K: 'n', S: "3"}
	case "array":
		if e := schemaSample(file, p.Items, depth); e != nil {
			return &JV{K: 'a', A: []*JV{e}}
		}
	case "object":
		return &JV{K: 'o', M: []JM{{"sim-key", JStr("v")}}}
	}
	return nil
}

// schemaMembers lists, for the object at ptr inside a document (doc carries "$schema"), the members
// its published definition has and the object lacks, with a sample value as JSON text.
func schemaMembers(doc *JV, ptr string) map[string][]string {
	f, def, _ := schemaDefAt(nil, doc.Get("$schema").Str())
	if def == nil {
		return nil
	}
	cur := doc
	if ptr != "" {
		for _, part := range strings.Split(strings.TrimPrefix(ptr, "/"), "/") {
			if cur == nil || def == nil {
				return nil
			}
			switch cur.K {
			case 'o':
				if sub := cur.Get(part); sub != nil && sub.K == 'o' && sub.Get("$schema") != nil {
					// an embedded object with its own schema
					cur = sub
					f, def, _ = schemaDefAt(nil, sub.Get("$schema").Str())
					continue
				}
				p := def.Properties[part]
				if p == nil {
					return nil
				}
				cur = cur.Get(part)
				ref := p.Ref
				if p.Type == "array" && p.Items != nil {
					ref = p.Items.Ref
					// the next part is the index; consume it below
					def = nil
					if ref != "" {
						f, def, _ = schemaDefAt(f, ref)
					}
					continue
				}
				if ref == "" {
					return nil
				}
				f, def, _ = schemaDefAt(f, ref)
			case 'a':
				idx := 0
				for _, ch := range part {
					if ch < '0' || ch > '9' {
						return nil
					}
					idx = idx*10 + int(ch-'0')
				}
				if idx >= len(cur.A) {
					return nil
				}
				cur = cur.A[idx]
				// def already is the element definition
			default:
				return nil
			}
		}
	}
	if cur == nil || cur.K != 'o' || def == nil || def.Type != "object" {
		return nil
	}
	out := map[string][]string{}
	keys := make([]string, 0, len(def.Properties))
	for k := range def.Properties {
		keys = append(keys, k)
	}
	sort.Strings(keys)
	for _, k := range keys {
		if strings.HasPrefix(k, "$") || cur.Get(k) != nil {
			continue
		}
		if vs := schemaVariants(f, def.Properties[k]); len(vs) > 0 {
			out[k] = vs
		}
	}
	return out
}

// schemaVariants: for an object-valued member, one sample per property of its definition (the
// member carrying just that property), so that members of members no corpus document has are
// reached as well; for anything else the single sample.
func schemaVariants(file *pubSchemaFile, p *pubSchemaProp) []string {
	var out []string
	if base := schemaSample(file, p, 2); base != nil {
		out = append(out, string(base.Encode(nil)))
	}
	ref := p.Ref
	wrap := func(v *JV) *JV { return v }
	if p.Type == "array" && p.Items != nil && p.Items.Ref != "" {
		ref = p.Items.Ref
		wrap = func(v *JV) *JV { return &JV{K: 'a', A: []*JV{v}} }
	}
	if ref == "" {
		return out
	}
	f2, def, _ := schemaDefAt(file, ref)
	if def == nil || def.Type != "object" {
		return out
	}
	req := &JV{K: 'o'}
	for _, r := range def.Required {
		v := schemaSample(f2, def.Properties[r], 1)
		if v == nil {
			return out
		}
		req.M = append(req.M, JM{r, v})
	}
	for _, k := range SortedKeys(def.Properties) {
		if strings.HasPrefix(k, "$") || k == "uuid" || req.Get(k) != nil {
			continue
		}
		v := schemaSample(f2, def.Properties[k], 1)
		if v == nil {
			continue
		}
		o := req.Clone()
		o.M = append(o.M, JM{k, v})
		out = append(out, string(wrap(o).Encode(nil)))
	}
	return out
}
