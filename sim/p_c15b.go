package verifsim

import (
	"bytes"
	"context"
	"encoding/json"
	"fmt"
	"net/http"
	"net/http/httptest"
	"os"
	"path/filepath"
	"runtime"
	"sort"
	"strings"
	"sync"
	"sync/atomic"
	"time"

	"github.com/invopop/gobl"
	"github.com/invopop/gobl/bill"
	"github.com/invopop/gobl/cal"
	"github.com/invopop/gobl/cbc"
	"github.com/invopop/gobl/head"
	"github.com/invopop/gobl/internal/cli"
	"github.com/invopop/gobl/schema"
)

// C15, checks 2–4: op-level interleaving of library callers, the read-only
// fingerprint of shared definitions, and the race-detector monitor.

var wlOps = []string{"build", "validate", "sign", "verify", "correct", "correct-shared", "validate-stamped", "build-undated", "replicate", "corrschema", "cli-build", "digest"}

var (
	addonMu   sync.Mutex
	addonKeys []string
)

func allAddons(repo string) []string {
	addonMu.Lock()
	defer addonMu.Unlock()
	if addonKeys != nil {
		return addonKeys
	}
	files, _ := filepath.Glob(filepath.Join(repo, "data/addons/*.json"))
	sort.Strings(files)
	for _, f := range files {
		b, err := os.ReadFile(f)
		if err != nil {
			continue
		}
		var m struct {
			Key string `json:"key"`
		}
		if json.Unmarshal(b, &m) == nil && m.Key != "" {
			addonKeys = append(addonKeys, m.Key)
		}
	}
	return addonKeys
}

// wlSource returns the source document, optionally with its addon list replaced.
func wlSource(c *Ctx, doc, addon string) ([]byte, *Doc) {
	d := c.Corpus.Get(doc)
	if d == nil {
		return nil, nil
	}
	src := d.Src
	if d.IsEnv {
		if v, err := ParseJV(d.Src); err == nil && v.Get("doc") != nil {
			src = v.Get("doc").Encode(nil)
		}
	}
	if addon == "" {
		return src, d
	}
	v, err := ParseJV(src)
	if err != nil {
		return src, d
	}
	arr := &JV{K: 'a'}
	for _, a := range strings.Split(addon, ",") {
		arr.A = append(arr.A, JStr(a))
	}
	v.Set("$addons", arr)
	return v.Encode(nil), d
}

// runItem executes one workload item and returns a digest of its outcome with
// process-generated fields removed.
// sharedCorrectOpts is one option list with spare capacity, used by every caller.
var sharedCorrectOpts = append(make([]schema.Option, 0, 8), bill.Credit, bill.WithReason("x"), bill.WithIssueDate(mustDate("2024-06-01")))

func runItem(c *Ctx, doc, addon, op string) string {
	src, d := wlSource(c, doc, addon)
	if d == nil {
		return "missing"
	}
	out := ""
	func() {
		defer func() {
			if r := recover(); r != nil {
				out = fmt.Sprint("panic:", r)
			}
		}()
		build := func() (*gobl.Envelope, error) {
			o := new(schema.Object)
			if err := json.Unmarshal(src, o); err != nil {
				return nil, err
			}
			env, err := gobl.Envelop(o)
			if err != nil {
				return nil, err
			}
			env.Head.UUID = FixedHeadUUID(7)
			return env, nil
		}
		if op == "build-undated" {
			// a document that leaves its date to the clock (the regime's time zone is looked up)
			if v, err := ParseJV(src); err == nil && v.Get("issue_date") != nil {
				v.Del("issue_date")
				v.Del("value_date")
				v.Del("op_date")
				src = v.Encode(nil)
			}
		}
		env, err := build()
		if err != nil {
			out = "build-error:" + errKey(err) + ":" + H([]byte(err.Error()))
			return
		}
		switch op {
		case "build-undated":
			v, _ := ParseJV(Marshal(env))
			if v != nil && v.Get("doc") != nil {
				// the date depends on the instant; everything else must not
				v.Get("doc").Del("issue_date")
				v.Get("head").Del("dig")
				if v.Get("doc").Get("totals") != nil {
					v.Get("doc").Del("totals")
					v.Get("doc").Del("lines")
					v.Get("doc").Del("payment")
				}
				out = "undated:" + H(v.Encode(nil))
			}
		case "build":
			out = "ok:" + H(Marshal(env))
		case "validate":
			out = "validate:" + errStrHash(env.Validate())
		case "digest":
			dg, err := env.Digest()
			if err != nil {
				out = "digest-error"
			} else {
				out = dg.Value
			}
		case "sign":
			err := env.Sign(PrivKey(1))
			out = fmt.Sprintf("sign:%s:%d", errStrHash(err), len(env.Signatures))
		case "verify":
			if err := env.Sign(PrivKey(1)); err != nil {
				out = "sign:" + errStrHash(err)
				return
			}
			out = fmt.Sprintf("verify:%v:%v", env.Verify(PubKey(1)) == nil, env.Verify(PubKey(2)) == nil)
		case "correct":
			r, err := env.Correct(bill.Credit, bill.WithReason("x"), bill.WithIssueDate(mustDate("2024-06-01")))
			if err != nil {
				out = "correct-error:" + H([]byte(err.Error()))
			} else {
				out = "corrected:" + H([]byte(normaliseResult(Marshal(r))))
			}
		case "validate-stamped":
			// a signed envelope that received stamps afterwards, in an order that differs between documents
			if err := env.Sign(PrivKey(1)); err != nil {
				out = "sign-error:" + errStrHash(err)
				break
			}
			provs := []string{"sim-prv-a", "sim-prv-b", "sim-prv-c"}
			if len(doc)%2 == 1 {
				provs = []string{"sim-prv-c", "sim-prv-a", "sim-prv-b"}
			}
			for _, p := range provs {
				env.Head.AddStamp(&head.Stamp{Provider: cbc.Key(p), Value: "v-" + p})
			}
			out = "validate-stamped:" + errStrHash(env.Validate())
		case "correct-shared":
			// callers that keep one option list and use it for every document: the list has room
			// to spare, and each envelope carries its own stamp
			env.Head.AddStamp(&head.Stamp{Provider: "sim-prv-a", Value: "stamp-of-" + H([]byte(doc+"|"+addon))})
			r, err := env.Correct(sharedCorrectOpts...)
			if err != nil {
				out = "correct-error:" + H([]byte(err.Error()))
			} else {
				out = "corrected:" + H([]byte(normaliseResult(Marshal(r))))
			}
		case "replicate":
			r, err := env.Replicate()
			if err != nil {
				out = "replicate-error:" + H([]byte(err.Error()))
			} else {
				v, _ := ParseJV([]byte(normaliseResult(Marshal(r))))
				if v != nil {
					v.Get("doc").Del("issue_date")
					if v.Get("doc").Get("totals") != nil {
						// rates may depend on today's date; keep the inputs only
						v.Get("doc").Del("totals")
						v.Get("doc").Del("lines")
						v.Get("doc").Del("payment")
					}
					out = "replica:" + H(v.Encode(nil))
				}
			}
		case "corrschema":
			s, err := env.CorrectionOptionsSchema()
			out = "schema:" + errStrHash(err) + H(Marshal(s))
		case "cli-build":
			r, err := cli.Build(context.Background(), &cli.BuildOptions{ParseOptions: &cli.ParseOptions{Input: strings.NewReader(string(src)), Envelop: true}})
			if err != nil {
				out = "cli-error:" + H([]byte(err.Error()))
			} else {
				v, _ := ParseJV(Marshal(r))
				if v != nil && v.Get("head") != nil {
					v.Get("head").Del("uuid")
				}
				out = "cli:" + H(v.Encode(nil))
			}
		}
	}()
	return out
}

func errStrHash(err error) string {
	if err == nil {
		return "ok"
	}
	return errKey(err) + ":" + H([]byte(err.Error()))
}

func mustDate(s string) (d cal.Date) {
	d, _ = parseDate(s)
	return
}

// wlItems lists the workload: every corpus document as shipped, and every
// invoice example crossed with every registered addon.
func wlItems(c *Ctx) [][2]string {
	var out [][2]string
	for _, d := range c.Corpus.Valid {
		out = append(out, [2]string{d.Name, ""})
	}
	seenRegime := map[string]int{}
	for _, d := range c.Corpus.Invoices {
		if seenRegime[d.Regime] >= 3 {
			continue
		}
		seenRegime[d.Regime]++
		for _, a := range allAddons(c.Repo) {
			out = append(out, [2]string{d.Name, a})
		}
		if seenRegime[d.Regime] == 1 {
			// two addons at once, the regime-independent one first: what one writes the other may have handed out
			for _, a := range allAddons(c.Repo) {
				if !strings.HasPrefix(a, "eu-") {
					out = append(out, [2]string{d.Name, "eu-en16931-v2017," + a})
				}
			}
		}
	}
	return out
}

func init() {
	pd := props["C15"]
	pd.Checks = append(pd.Checks,
		&CheckDef{
			Name:   "shared",
			Bubble: true,
			NumRuns: func(c *Ctx) int64 {
				n := int64(len(wlItems(c)))
				if c.Tier == "thorough" {
					return n
				}
				return (n + 3) / 4
			},
			Plan: func(c *Ctx, run int64) *Plan {
				items := wlItems(c)
				r := RNG(c.Seed, run, 25)
				var it [2]string
				if c.Tier == "thorough" {
					it = items[run]
				} else {
					it = items[(int(run)*4+r.IntN(4))%len(items)]
				}
				p := &Plan{Prop: "C15", Check: "shared", Seed: c.Seed, Run: run, Str: map[string]string{"doc": it[0], "addon": it[1]}}
				for i, op := range wlOps {
					if op == "build-undated" {
						// looks the regime's time zone up: a properly synchronised cache filled on
						// first use would look like a write to the fingerprint, so this operation is
						// left to the interleaving check and the race monitors
						continue
					}
					p.Ops = append(p.Ops, Op{ID: i + 1, K: op})
				}
				return p
			},
			Exec:         execShared,
			FreshProcess: true,
			Exhaustive:   func(c *Ctx) bool { return c.Tier == "thorough" },
		},
		&CheckDef{
			Name:   "interleave",
			Bubble: true,
			NumRuns: func(c *Ctx) int64 {
				if c.Tier == "thorough" {
					return 4000
				}
				return 100
			},
			Plan: planInterleave,
			Exec: execInterleave,
		},
		&CheckDef{
			Name:      "race",
			NeedsRace: true,
			NumRuns: func(c *Ctx) int64 {
				if c.Tier == "thorough" {
					return 240
				}
				return 24
			},
			Plan:             planRace,
			Exec:             execRace,
			CrashIsViolation: true,
		},
	)
	pd.RequiredProbes = append(pd.RequiredProbes, "fingerprint-taken", "regime-addon-cross-pair", "slots-interleaved")
}

func execShared(x *X) {
	doc, addon := x.P.Str["doc"], x.P.Str["addon"]
	if addon != "" {
		x.Probe("regime-addon-cross-pair")
	}
	// Bring "most recently used" style state into a canonical position first, so that what a
	// run observes does not depend on the runs executed before it in this process (and the
	// replay in a fresh process sees the same thing).
	_ = runItem(x.C, "note/examples/message", "", "build")
	_ = runItem(x.C, "examples/es/party", "", "validate")
	base := TakeFingerprint()
	for i, op := range x.P.Ops {
		x.Entropy(op.ID)
		out := runItem(x.C, doc, addon, op.K)
		fp := TakeFingerprint()
		x.Probe("fingerprint-taken")
		x.Case(fmt.Sprintf("%s|%s|%s", doc, addon, op.K))
		if i == 0 && x.P.Run == 0 {
			for n := 0; n < fp.Nodes; n += 1000 {
				x.Probe("fingerprint-kilonodes-per-snapshot")
			}
			for n := 0; n < fp.Spare; n++ {
				x.Probe("fingerprint-spare-capacity-slots")
			}
		}
		if diff := base.Diff(fp); len(diff) > 0 {
			x.Violate("shared-state-written:"+strings.Join(diff, ","), "operation %s on %s (addons replaced by %q) changed package-level state that must be read-only after init: %v (a write into shared definitions or a shared cache, e.g. an append into a shared slice's spare capacity); outcome of the operation: %s", op.K, doc, addon, diff, out)
			return
		}
		x.Step(i, "caller", op.K, out)
	}
	x.R.Nontrivial = true
}

func planInterleave(c *Ctx, run int64) *Plan {
	r := RNG(c.Seed, run, 26)
	items := wlItems(c)
	p := &Plan{Prop: "C15", Check: "interleave", Seed: c.Seed, Run: run}
	k := 2 + r.IntN(7)
	id := 0
	for s := 0; s < k; s++ {
		it := Pick(r, items)
		n := 2 + r.IntN(5)
		for i := 0; i < n; i++ {
			id++
			p.Ops = append(p.Ops, Op{ID: id, K: Pick(r, wlOps), N: int64(s), S: it[0], S2: it[1]})
		}
	}
	for i := 0; i < len(p.Ops)*2; i++ {
		p.Sched = append(p.Sched, r.IntN(1<<16))
	}
	return p
}

func execInterleave(x *X) {
	// slots: op lists keyed by slot index
	slots := map[int64][]Op{}
	var order []int64
	for _, op := range x.P.Ops {
		if _, ok := slots[op.N]; !ok {
			order = append(order, op.N)
		}
		slots[op.N] = append(slots[op.N], op)
	}
	// solo runs
	solo := map[int]string{}
	for _, s := range order {
		for _, op := range slots[s] {
			x.Entropy(op.ID)
			solo[op.ID] = runItem(x.C, op.S, op.S2, op.K)
		}
	}
	// interleaved: the plan's schedule decides which slot advances
	pos := map[int64]int{}
	ci := 0
	step := 0
	for {
		var ready []int64
		for _, s := range order {
			if pos[s] < len(slots[s]) {
				ready = append(ready, s)
			}
		}
		if len(ready) == 0 {
			break
		}
		c := 0
		if ci < len(x.P.Sched) {
			c = x.P.Sched[ci]
		}
		ci++
		s := ready[c%len(ready)]
		op := slots[s][pos[s]]
		pos[s]++
		x.Entropy(op.ID)
		got := runItem(x.C, op.S, op.S2, op.K)
		x.Log.Grant(fmt.Sprint("slot", s), op.K)
		x.Step(step, fmt.Sprint("slot", s), op.K, got)
		step++
		if got != solo[op.ID] {
			x.Violate("interleaved-result-differs:"+op.K, "slot %d op %s on %s (addon %q) gave %s when interleaved with other callers but %s when run alone", s, op.K, op.S, op.S2, got, solo[op.ID])
			return
		}
	}
	if len(order) > 1 {
		x.Probe("slots-interleaved")
		x.R.Nontrivial = true
	}
}

// ---------------------------------------------------------------------------
// race monitor (free-running goroutines under the race detector; not deterministic)

func planRace(c *Ctx, run int64) *Plan {
	r := RNG(c.Seed, run, 27)
	items := wlItems(c)
	p := &Plan{Prop: "C15", Check: "race", Seed: c.Seed, Run: run, Knobs: map[string]int64{
		"gomaxprocs": []int64{1, 4, 16}[int(run)%3], "goroutines": int64(4 + r.IntN(13)), "yield": int64(r.IntN(4)),
	}}
	// pairs that share a regime or an addon are the interesting ones: pick a few documents and reuse them
	var picks [][2]string
	for i := 0; i < 6; i++ {
		picks = append(picks, Pick(r, items))
	}
	n := 60 + r.IntN(120)
	for i := 0; i < n; i++ {
		it := Pick(r, picks)
		p.Ops = append(p.Ops, Op{ID: i + 1, K: Pick(r, wlOps), S: it[0], S2: it[1]})
	}
	return p
}

func execRace(x *X) {
	procs := int(x.P.Knob("gomaxprocs", 4))
	old := runtime.GOMAXPROCS(procs)
	defer runtime.GOMAXPROCS(old)
	g := int(x.P.Knob("goroutines", 8))
	yield := int(x.P.Knob("yield", 0))
	var wg sync.WaitGroup
	ops := x.P.Ops
	t0 := time.Now()
	for w := 0; w < g; w++ {
		wg.Add(1)
		go func(w int) {
			defer wg.Done()
			for i := w; i < len(ops); i += g {
				op := ops[i]
				if yield > 0 && i%yield == 0 {
					runtime.Gosched()
				}
				_ = runItem(x.C, op.S, op.S2, op.K)
			}
		}(w)
	}
	wg.Wait()
	x.R.Nontrivial = true
	x.R.Evals = int64(len(ops))
	x.Probe("race-workload-completed")
	x.Log.Event(0, 0, "race", "done", fmt.Sprint(len(ops), g, procs))
	_ = t0
}

// ---------------------------------------------------------------------------
// race monitor over the bulk pipeline: several free-running bulk streams, the HTTP-style
// ones on one shared server instance, under the race detector; the pairing oracle is
// applied to what each client received.

func init() {
	pd := props["C15"]
	pd.Checks = append(pd.Checks, &CheckDef{
		Name:      "racebulk",
		NeedsRace: true,
		NumRuns: func(c *Ctx) int64 {
			if c.Tier == "thorough" {
				return 400
			}
			return 40
		},
		Plan: func(c *Ctx, run int64) *Plan {
			r := RNG(c.Seed, run, 28)
			p := &Plan{Prop: "C15", Check: "racebulk", Seed: c.Seed, Run: run, Knobs: map[string]int64{
				"gomaxprocs": []int64{1, 4, 16}[int(run)%3], "streams": int64(2 + r.IntN(5)),
			}}
			docs := c.Corpus.Valid
			id := 0
			for s := int64(0); s < p.Knobs["streams"]; s++ {
				p.Knobs[fmt.Sprintf("http%d", s)] = int64(r.IntN(3) / 1 % 2)
				if r.IntN(3) > 0 {
					p.Knobs[fmt.Sprintf("http%d", s)] = 1
				}
				for i, n := 0, 1+r.IntN(24); i < n; i++ {
					id++
					op := Op{ID: id, K: "req", N: s, S: Pick(r, []string{"ping", "ping", "build", "validate", "sign", "verify", "schemas", "regime", "sleep", "unknown", "keygen"}), S2: Pick(r, docs).Name, B: Chance(r, 0.2)}
					if op.S == "sleep" {
						op.I = Pick(r, []int64{1000, 50000, 1000000, 3000000, 3000000, 120000000, 260000000}) // now and then long enough for a handler's own timers to fire
					}
					p.Ops = append(p.Ops, op)
				}
			}
			return p
		},
		Exec:             execRaceBulk,
		CrashIsViolation: true,
	})
}

func execRaceBulk(x *X) {
	old := runtime.GOMAXPROCS(int(x.P.Knob("gomaxprocs", 4)))
	defer runtime.GOMAXPROCS(old)
	n := int(x.P.Knob("streams", 2))
	streams := make([]*bulkStream, n)
	counts := make([]int, n)
	for i := range streams {
		streams[i] = &bulkStream{idx: i, style: "cli", expect: map[int64]string{}}
		if x.P.Knob(fmt.Sprintf("http%d", i), 0) == 1 {
			streams[i].style = "http"
		}
	}
	for _, op := range x.P.Ops {
		s := int(op.N)
		if op.K != "req" || s >= n {
			continue
		}
		counts[s]++
		rq := x.buildRequest(op, counts[s])
		streams[s].reqs = append(streams[s].reqs, rq)
	}
	// the oracle first, sequentially (none of these actions depends on the clock beyond the date)
	for _, st := range streams {
		for i := range st.reqs {
			st.nOK++
			st.input = append(st.input, st.reqs[i].line()...)
			st.expect[int64(i+1)] = standalone(&st.reqs[i], 0)
		}
	}
	server := HTTPHandler(PrivKey(0))
	var wg sync.WaitGroup
	start := make(chan struct{})
	for _, st := range streams {
		st := st
		wg.Add(1)
		go func() {
			defer wg.Done()
			<-start
			if st.style == "http" {
				code, body := 0, []byte(nil)
				req := httptest.NewRequest(http.MethodPost, "/bulk", bytes.NewReader(st.input))
				rec := httptest.NewRecorder()
				// an http.ResponseWriter is for one goroutine at a time; a client that is slow to
				// take what is written (every fourth run) keeps each Write open long enough for a
				// handler's own timers to fire meanwhile
				srw := &strictRW{rw: rec}
				if x.P.Run%4 == 1 {
					srw.hold = 20 * time.Millisecond
				}
				server.ServeHTTP(srw, req)
				if n := srw.overlaps.Load(); n > 0 {
					overlapMu.Lock()
					overlapTotal += n
					overlapMu.Unlock()
				}
				code, body = rec.Code, rec.Body.Bytes()
				_ = code
				dec := json.NewDecoder(bytes.NewReader(body))
				for {
					var r wireResp
					if err := dec.Decode(&r); err != nil {
						break
					}
					st.resp = append(st.resp, r)
				}
			} else {
				for res := range cli.Bulk(context.Background(), &cli.BulkOptions{In: bytes.NewReader(st.input), DefaultPrivateKey: PrivKey(0)}) {
					st.resp = append(st.resp, toWire(res))
				}
			}
		}()
	}
	close(start)
	wg.Wait()
	overlapMu.Lock()
	if overlapTotal > 0 {
		x.Violate("response-writer-used-concurrently", "the /bulk handler called its http.ResponseWriter from two goroutines at the same time (%d overlapping calls)", overlapTotal)
		overlapTotal = 0
	}
	overlapMu.Unlock()
	for _, st := range streams {
		st.httpOut = nil
		style := st.style
		st.style = "cli" // responses are already collected in st.resp
		x.checkStream(st)
		st.style = style
	}
	x.R.Nontrivial = true
	x.Probe("race-bulk-workload-completed")
	x.Log.Event(0, 0, "racebulk", "done", fmt.Sprint(n))
}

var (
	overlapMu    sync.Mutex
	overlapTotal int64
)

// strictRW wraps a response writer and counts calls that overlap in time.
type strictRW struct {
	rw       http.ResponseWriter
	busy     atomic.Int32
	overlaps atomic.Int64
	hold     time.Duration
}

func (s *strictRW) enter() {
	if !s.busy.CompareAndSwap(0, 1) {
		s.overlaps.Add(1)
	}
}
func (s *strictRW) leave()              { s.busy.Store(0) }
func (s *strictRW) Header() http.Header { return s.rw.Header() }
func (s *strictRW) WriteHeader(c int) {
	s.enter()
	s.rw.WriteHeader(c)
	s.leave()
}
func (s *strictRW) Write(p []byte) (int, error) {
	s.enter()
	if s.hold > 0 {
		time.Sleep(s.hold)
	}
	n, err := s.rw.Write(p)
	s.leave()
	return n, err
}
func (s *strictRW) Flush() {
	s.enter()
	if f, ok := s.rw.(http.Flusher); ok {
		f.Flush()
	}
	s.leave()
}
