package verifsim

import (
	"bytes"
	"context"
	"encoding/json"
	"fmt"
	"os"
	"time"

	"github.com/invopop/gobl"
	"github.com/invopop/gobl/internal/cli"
	"github.com/invopop/gobl/schema"
	"github.com/invopop/yaml"
)

// C04 — calculation is a deterministic fixpoint; serialisation is lossless;
// read-only operations do not write. World: W-LIFE (one envelope slot with
// durable bytes, a fake clock and deterministic entropy).

func init() {
	register(&PropDef{
		ID:    "C04",
		Level: "exploration",
		Rule: "seeded histories over one envelope slot per run (a sample of them, and every history that brings a document under a published scenario, executed again by a second OS process and compared byte for byte): business edits incl. edits derived from the published definitions (scenario conditions, payment means keys, extension codes, tax categories) and from other corpus documents (transplanted members, grafted list entries), calculate (library and cli.Build over a simulated stream), persist, restore (drop the live object, parse the durable bytes), lost write, content-preserving re-encoding of the durable bytes, clock jumps, entropy reseeds, read-only operations, k-fold repetition on fresh copies; sub-check minimal: every example source with one member left out (thorough: pairs of top-level members too) calculated, restored from its bytes and calculated again; sub-check typenames: every type name the command line accepts resolved repeatedly and in a second process; " +
			"a case is distinct by (document, plan shape, trace hash) and non-trivial when at least one restart/lost-write/re-encode/clock-jump fault fired before a checked calculate",
		Assumptions: []string{
			"documents are the repository's example corpus plus seeded business edits of it; other document shapes are not reached",
		},
		RequiredProbes: []string{"calc-after-restore", "calc-after-clock-jump", "calc-after-reencode", "undated-doc-dated-by-clock"},
		Checks: []*CheckDef{{
			Name:   "life",
			Bubble: true,
			NumRuns: func(c *Ctx) int64 {
				if c.Tier == "thorough" {
					return int64(len(c.Corpus.Valid)) * 250
				}
				return int64(len(c.Corpus.Valid)) * 30
			},
			Plan: planC04,
			Exec: execC04,
			// "regardless of process": a sample of the histories, and every history that brings a
			// document under a published scenario, is executed by a second process and compared
			CrossProcess: func(p *Plan) bool {
				if p.Run%4 == 0 {
					return true
				}
				for _, op := range p.Ops {
					if op.K == "edit" && (op.S == "scenario" || op.S == "addons") {
						return true
					}
				}
				return false
			},
		}},
	})
}

var c04ops = []struct {
	k string
	w int
}{
	{"calc", 10}, {"calc-build", 4}, {"persist", 6}, {"restore", 7}, {"lostwrite", 2}, {"reencode", 5},
	{"validate", 3}, {"digest", 2}, {"verify", 2}, {"extract", 2}, {"clone", 2}, {"corrschema", 1},
	{"jump", 6}, {"kfold", 2}, {"edit", 5}, {"codec", 3}, {"sign", 3}, {"unsign", 1}, {"reseed", 1}, {"hdr", 3},
}

func planC04(c *Ctx, run int64) *Plan {
	docs := c.Corpus.Valid
	d := docs[int(run)%len(docs)]
	r := RNG(c.Seed, run, 4)
	p := &Plan{Prop: "C04", Check: "life", Seed: c.Seed, Run: run, Str: map[string]string{"doc": d.Name}}
	id := 0
	next := func(k string) Op { id++; return Op{ID: id, K: k} }
	// swarm: per-run op weights
	w := make([]int, len(c04ops))
	tot := 0
	for i, o := range c04ops {
		w[i] = o.w * Pick(r, []int{0, 1, 1, 2, 4})
		tot += w[i]
	}
	if tot == 0 {
		w[0], tot = 1, 1
	}
	if Chance(r, 0.25) {
		o := next("edit")
		o.S = Pick(r, []string{"nodate", "nouuid"})
		p.Ops = append(p.Ops, o)
	}
	for i, n := 0, r.IntN(3); i < n; i++ {
		o := genEdit(r, 0)
		id++
		o.ID = id
		p.Ops = append(p.Ops, o)
	}
	if Chance(r, 0.2) {
		// every regime × addon pairing: replace the addon list (calculation may fail; then the run is trivial)
		o := next("edit")
		o.S, o.S2 = "addons", Pick(r, allAddons(c.Repo))
		p.Ops = append(p.Ops, o)
	}
	if Chance(r, 0.1) {
		o := next("edit")
		o.S, o.S2 = "pricesinclude", "VAT"
		p.Ops = append(p.Ops, o)
	}
	p.Ops = append(p.Ops, next("calc"))
	n := 4 + r.IntN(27)
	for i := 0; i < n; i++ {
		x := r.IntN(tot)
		k := ""
		for j, o := range c04ops {
			if x < w[j] {
				k = o.k
				break
			}
			x -= w[j]
		}
		o := next(k)
		switch k {
		case "jump":
			o.I = Pick(r, []int64{1, 59, 3600, 86399, 86400, 86401, 7 * 86400, 31 * 86400, 366 * 86400, 5 * 366 * 86400, 20 * 366 * 86400})
		case "kfold":
			o.I = 8
			if c.Tier == "thorough" {
				o.I = 32
			}
		case "edit":
			e := genEdit(r, o.ID)
			o = e
		case "reencode", "codec":
			o.I = int64(r.Uint32())
		case "calc-build":
			o.I = Pick(r, []int64{0, 1, 3, 7, 64, 4096})
			o.J = int64(r.IntN(4)) // zero-read cadence
		case "sign":
			o.I = int64(r.IntN(3))
		case "hdr":
			// header entries in no particular order (providers and keys deliberately unsorted)
			o.S = Pick(r, []string{"stamp", "stamp", "link", "tag", "meta", "notes", "stamp-alter"})
			switch o.S {
			case "stamp", "stamp-alter":
				o.S2, o.S3 = Pick(r, []string{"sim-prv-c", "sim-prv-a", "sim-prv-b", "zz-prv", "aa-prv"}), Pick(r, []string{"v1", "v2"})
			case "link":
				o.S2, o.S3 = Pick(r, []string{"xml", "pdf", "portal"}), Pick(r, linkURLs)
			case "tag":
				o.S2 = Pick(r, []string{"t2", "t1", "t3"})
			case "meta":
				o.S2, o.S3 = Pick(r, []string{"m2", "m1"}), "v"
			case "notes":
				o.S2 = "header note"
			}
		}
		p.Ops = append(p.Ops, o)
	}
	p.Ops = append(p.Ops, next("persist"), next("restore"), next("calc"))
	return p
}

type c04slot struct {
	env        *gobl.Envelope
	calculated bool // no edit since the last successful calculate
	durable    []byte
	durCalc    bool
	prevDur    []byte
	prevCalc   bool
	uuids      string // head uuid + doc uuid once assigned
	date       string
	kind       string
	sinceCalc  map[string]bool // faults since the last calculate
}

func execC04(x *X) {
	d := x.C.Corpus.Get(x.P.Str["doc"])
	if d == nil || d.Err != "" {
		x.R.Infra = "corpus document missing: " + x.P.Str["doc"]
		return
	}
	s := &c04slot{kind: d.Kind, sinceCalc: map[string]bool{}}
	// The history starts from the SOURCE as a user wrote it (not from an already calculated and
	// round-tripped envelope): leading edits are applied to the raw input, then the first
	// calculation happens here, and everything after it must be a fixpoint of that result.
	ops := x.P.Ops
	var env *gobl.Envelope
	if srcDoc := c04sourceDoc(d); srcDoc != nil {
		lead := 0
		for lead < len(ops) && ops[lead].K == "edit" {
			applyDocEdit(srcDoc, ops[lead])
			lead++
		}
		x.Entropy(0)
		obj := new(schema.Object)
		var err error
		if err = json.Unmarshal(srcDoc.Encode(nil), obj); err == nil {
			if p := safely(func() { env, err = gobl.Envelop(obj) }); p != "" {
				err = fmt.Errorf("panic: %s", p)
			}
		}
		if err != nil || env == nil {
			x.Probe("edited-source-does-not-calculate")
			return // trivial run: the property only speaks about documents that calculate
		}
		env.Head.UUID = FixedHeadUUID(int(x.P.Run % 1000))
		ops = ops[lead:]
		x.Probe("first-calculation-from-source")
		if srcDoc.Get("issue_date") == nil {
			if v, _ := ParseJV(Marshal(env)); v != nil && v.Get("doc").Get("issue_date").Str() != "" {
				x.Probe("undated-doc-dated-by-clock")
			}
		}
	} else {
		var err error
		env, err = ParseEnv(d.Env)
		if err != nil {
			x.Violate("codec:parse-own-output/"+d.Kind, "cannot parse envelope produced by the system: %v", err)
			return
		}
	}
	s.env = env
	s.calculated = true
	startT := time.Now()
	for i, op := range ops {
		x.Entropy(op.ID)
		before := Marshal(s.env)
		note := ""
		switch op.K {
		case "edit":
			nb, ok := editEnvBytes(before, op)
			if !ok {
				note = "noop"
				break
			}
			e2, err := ParseEnv(nb)
			if err != nil {
				note = "edit-unparseable"
				break
			}
			if op.S == "nodate" {
				x.Probe("undated-doc")
			}
			s.env = e2
			s.calculated = false
			s.uuids, s.date = "", ""
		case "calc":
			err := s.env.Calculate()
			after := Marshal(s.env)
			c04checkCalc(x, s, op, before, after, err, "library")
		case "calc-build":
			if s.env.Signed() {
				note = "skip-signed" // cli.Build strips signatures by design
				break
			}
			input := before
			if op.J%2 == 1 {
				// the CLI reads YAML: the same envelope written as YAML must build to the same bytes
				if y, err := yaml.JSONToYAML(before); err == nil {
					input = y
					x.Probe("yaml-input")
				}
			}
			rd := NewSimReader(x, "build-in", input)
			if op.I > 0 {
				rd.Chunks = []int{int(op.I)}
			}
			rd.Zero = int(op.J)
			rd.EOFWithData = op.ID%2 == 0
			rd.ZeroFirst = op.J > 0 && op.ID%3 == 0
			out, err := cli.Build(context.Background(), &cli.BuildOptions{ParseOptions: &cli.ParseOptions{Input: rd}})
			if err != nil {
				// Build also validates; an invalid but calculable document is not this property's concern
				if s.calculated {
					// a calculated corpus document that validated before must still build
					e2 := s.env.Validate()
					if e2 == nil {
						x.Violate("fixpoint:build-rejects-own-output/"+s.kind, "cli.Build over a chunked stream rejected an envelope that validates: %v", err)
					}
				}
				note = "build-error"
				break
			}
			e2, ok := out.(*gobl.Envelope)
			if !ok {
				x.Violate("fixpoint:build-type/"+s.kind, "cli.Build returned %T for an envelope", out)
				break
			}
			after := Marshal(e2)
			c04checkCalc(x, s, op, before, after, nil, "cli.Build")
			s.env = e2
		case "persist":
			s.prevDur, s.prevCalc = s.durable, s.durCalc
			s.durable, s.durCalc = before, s.calculated
		case "lostwrite":
			// the write is acknowledged but the previous version stays on disk
			if s.durable != nil {
				x.Fault("lost-write")
				s.sinceCalc["lost-write"] = true
			}
		case "restore", "reencode":
			if s.durable == nil {
				note = "nothing-durable"
				break
			}
			src := s.durable
			if op.K == "reencode" {
				var err error
				src, err = Reencode(s.durable, op.I, false)
				if err != nil {
					x.R.Infra = "reencode: " + err.Error()
					return
				}
				x.Fault("re-encode")
				s.sinceCalc["reencode"] = true
			} else {
				x.Fault("restart")
				s.sinceCalc["restore"] = true
			}
			e2, err := ParseEnv(src)
			if err != nil {
				if op.K == "reencode" {
					x.Probe("reencoded-not-parsed") // C08's clause
					note = "reencoded-not-parsed"
					break
				}
				x.Violate("codec:parse-own-output/"+s.kind, "%s: envelope bytes produced by the system do not parse: %v", op.K, err)
				break
			}
			got := Marshal(e2)
			if !bytes.Equal(got, s.durable) {
				x.Violate("codec:"+GDiff(s.durable, got)+"/"+s.kind, "%s: parse+serialise of stored bytes is not the identity; %s", op.K, DiffDetail(s.durable, got))
			}
			s.env = e2
			s.calculated = s.durCalc
			s.uuids, s.date = "", ""
		case "codec":
			// envelope and bare document both round-trip
			e2, err := ParseEnv(before)
			if err != nil {
				x.Violate("codec:parse-own-output/"+s.kind, "envelope bytes do not parse: %v", err)
				break
			}
			if got := Marshal(e2); !bytes.Equal(got, before) {
				x.Violate("codec:"+GDiff(before, got)+"/"+s.kind, "parse+serialise is not the identity; %s", DiffDetail(before, got))
			}
			db := Marshal(s.env.Document)
			obj, err := gobl.Parse(db)
			if err != nil {
				x.Violate("codec:parse-own-doc/"+s.kind, "document bytes do not parse with gobl.Parse: %v", err)
				break
			}
			wrapped, err := schema.NewObject(obj)
			if err != nil {
				x.Violate("codec:wrap-own-doc/"+s.kind, "parsed document cannot be wrapped again: %v", err)
				break
			}
			if got := Marshal(wrapped); !bytes.Equal(got, db) {
				x.Violate("codec-doc:"+GDiff(db, got)+"/"+s.kind, "gobl.Parse+serialise of the document is not the identity; %s", DiffDetail(db, got))
			}
			o2 := new(schema.Object)
			if err := o2.UnmarshalJSON(db); err == nil {
				if got := Marshal(o2); !bytes.Equal(got, db) {
					x.Violate("codec-obj:"+GDiff(db, got)+"/"+s.kind, "schema.Object round trip is not the identity; %s", DiffDetail(db, got))
				}
			}
			re, _ := Reencode(before, op.I, false)
			if e3, err := ParseEnv(re); err != nil {
				// whether every equivalent encoding is accepted is C08's clause, not C04's
				x.Probe("reencoded-not-parsed")
			} else if got := Marshal(e3); !bytes.Equal(got, before) {
				x.Violate("codec-reenc:"+GDiff(before, got)+"/"+s.kind, "parse(re-encode(b)) does not serialise to b; %s", DiffDetail(before, got))
			}
			x.Fault("re-encode")
		case "validate":
			_ = s.env.Validate()
			c04readonly(x, s, "validate", before)
		case "digest":
			_, _ = s.env.Digest()
			c04readonly(x, s, "digest", before)
		case "verify":
			_ = s.env.Verify()
			_ = s.env.Verify(PubKey(0))
			c04readonly(x, s, "verify", before)
		case "extract":
			_ = s.env.Extract()
			c04readonly(x, s, "extract", before)
		case "clone":
			if s.env.Document != nil {
				_, _ = s.env.Document.Clone()
			}
			c04readonly(x, s, "clone", before)
		case "corrschema":
			_, _ = s.env.CorrectionOptionsSchema()
			c04readonly(x, s, "corrschema", before)
		case "jump":
			time.Sleep(time.Duration(op.I) * time.Second)
			x.Fault("clock-jump")
			s.sinceCalc["jump"] = true
		case "reseed":
			x.Entropy(op.ID + 100000)
			x.Fault("entropy-reseed")
		case "sign":
			if !s.calculated {
				note = "skip-uncalculated"
				break
			}
			if err := s.env.Sign(PrivKey(int(op.I))); err != nil {
				note = "sign-error:" + errKey(err)
			}
		case "hdr":
			hop := Op{K: op.S, S: op.S2, S2: op.S3, I: op.I}
			note = headerMutate(s.env, hop)
		case "unsign":
			s.env.Unsign()
		case "kfold":
			outs := map[string]int{}
			var first []byte
			for k := int64(0); k < op.I; k++ {
				e2, err := ParseEnv(before)
				if err != nil {
					break
				}
				x.Entropy(op.ID) // same entropy for every copy
				if err := e2.Calculate(); err != nil {
					outs["error:"+errKey(err)]++
					continue
				}
				b := Marshal(e2)
				if first == nil {
					first = b
				}
				if !bytes.Equal(first, b) {
					x.Violate("repeat:"+GDiff(first, b)+"/"+s.kind, "two calculations of the same serialised envelope disagree; %s", DiffDetail(first, b))
					break
				}
				outs[H(b)]++
			}
			if len(outs) > 1 {
				x.Violate("repeat:outcomes/"+s.kind, "%d-fold repetition produced different outcomes: %v", op.I, outs)
			}
			if s.calculated && first != nil && !bytes.Equal(first, before) {
				x.Violate("fixpoint:"+GDiff(before, first)+"/"+s.kind, "calculating a parsed copy of a calculated envelope changed it; %s", DiffDetail(before, first))
			}
			x.Probe("kfold")
		}
		if os.Getenv("VERIF_DUMP") != "" {
			// debugging aid for replays: the envelope after every step
			if f, err := os.OpenFile(os.Getenv("VERIF_DUMP"), os.O_APPEND|os.O_CREATE|os.O_WRONLY, 0o644); err == nil {
				fmt.Fprintf(f, "DUMP step %d %s %s: %s\n", i, op.K, op.S, Marshal(s.env))
				f.Close()
			}
		}
		x.Step(i, "slot", op.K, note+"|"+H(Marshal(s.env)))
		x.Output(fmt.Sprintf("%d:%s", i, op.K), Marshal(s.env))
		if len(x.R.Violations) > 0 {
			break
		}
	}
	x.R.SimTimeS = time.Since(startT).Seconds()
}

// c04sourceDoc returns the source document (not envelope) as the user wrote it.
func c04sourceDoc(d *Doc) *JV {
	v, err := ParseJV(d.Src)
	if err != nil {
		return nil
	}
	if d.IsEnv {
		if v.Get("doc") == nil {
			return nil
		}
		return v.Get("doc")
	}
	return v
}

func c04readonly(x *X, s *c04slot, what string, before []byte) {
	after := Marshal(s.env)
	if !bytes.Equal(before, after) {
		x.Violate("readonly:"+what+":"+GDiff(before, after)+"/"+s.kind, "%s changed the envelope; %s", what, DiffDetail(before, after))
	}
}

func c04checkCalc(x *X, s *c04slot, op Op, before, after []byte, err error, via string) {
	if err != nil {
		if s.calculated {
			x.Violate("fixpoint:recalc-fails/"+s.kind, "recalculating (%s) an already calculated envelope failed: %v", via, err)
		}
		return
	}
	if s.calculated {
		nt := false
		for k := range s.sinceCalc {
			nt = true
			x.Probe("calc-after-" + map[string]string{"restore": "restore", "jump": "clock-jump", "reencode": "reencode", "lost-write": "lost-write"}[k])
		}
		if nt {
			x.R.Nontrivial = true
		}
		if !bytes.Equal(before, after) {
			x.Violate("fixpoint:"+GDiff(before, after)+"/"+s.kind, "calculate (%s) on a calculated envelope is not the identity (faults since last calculate: %v); %s", via, SortedKeys(s.sinceCalc), DiffDetail(before, after))
		}
	}
	s.calculated = true
	s.sinceCalc = map[string]bool{}
	// identifiers and dates never change once present
	v, _ := ParseJV(after)
	if v != nil {
		ids := v.Get("head").Get("uuid").Str() + "|" + v.Get("doc").Get("uuid").Str()
		date := v.Get("doc").Get("issue_date").Str()
		if s.uuids != "" && s.uuids != ids {
			x.Violate("identity-changed:uuid/"+s.kind, "identifiers changed on recalculation: %s -> %s", s.uuids, ids)
		}
		if s.date != "" && s.date != date {
			x.Violate("identity-changed:issue_date/"+s.kind, "issue date changed on recalculation: %s -> %s", s.date, date)
		}
		if bv, _ := ParseJV(before); bv != nil {
			bd := bv.Get("doc").Get("issue_date").Str()
			if (bd == "" || bd == "0000-00-00") && date != "" && date != "0000-00-00" {
				x.Probe("undated-doc-dated-by-clock")
			}
		}
		s.uuids, s.date = ids, date
	}
	_ = fmt.Sprint
}
