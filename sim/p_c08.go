package verifsim

import (
	"encoding/json"
	"fmt"
	"sort"
	"strings"
	"sync"

	"github.com/invopop/gobl"
	"github.com/invopop/gobl/bill"
	"github.com/invopop/gobl/cbc"
	"github.com/invopop/gobl/note"
	"github.com/invopop/gobl/num"
	"github.com/invopop/gobl/org"
)

// C08 — the header digest makes every change to the stored document evident.
// World: the durable bytes of a calculated envelope suffer exactly one storage
// fault (content-changing or content-preserving) between persist and restore.

const c08block = 48

func init() {
	register(&PropDef{
		ID:    "C08",
		Level: "fault_enumeration",
		Rule: "for every corpus envelope (unsigned and signed): every JSON pointer of the serialised document × every applicable single content-changing storage fault (alter leaf, remove member, add a member seen at the same place in other corpus documents, swap/delete/duplicate array element, raw bit/byte faults inside value bytes), plus seeded content-preserving re-encodings; thorough enumerates all pointers, quick a seeded sample of pointer blocks; " +
			"a case is (document, signed?, fault kind, pointer) and all are non-trivial (each one is a distinct damaged or re-encoded stored document)",
		Assumptions: []string{
			"content-changing faults are restricted to changes that are semantic under any reading: no case-only changes, no member renames, no unknown member names, raw faults only inside value bytes",
			"'add member' candidates come from members observed at the same generic pointer in other corpus documents of the same schema, not from the JSON Schema files",
		},
		RequiredProbes: []string{"detected-by-digest", "detected-by-validation", "reencoded-validates", "signed-envelope-swept"},
		Checks: []*CheckDef{
			{
				Name:       "sweep",
				Bubble:     false,
				NumRuns:    func(c *Ctx) int64 { return int64(len(c08units(c))) },
				Plan:       planC08sweep,
				Exec:       execC08sweep,
				Exhaustive: func(c *Ctx) bool { return c.Tier == "thorough" },
				NoShrink:   false,
			},
			{
				Name: "reencode",
				NumRuns: func(c *Ctx) int64 {
					if c.Tier == "thorough" {
						return int64(len(c.Corpus.Valid)) * 24
					}
					return int64(len(c.Corpus.Valid)) * 3
				},
				Plan: planC08re,
				Exec: execC08re,
			},
		},
	})
}

type c08unit struct {
	doc    string
	from   int
	signed bool
}

var (
	c08mu    sync.Mutex
	c08cache map[string][]c08unit
)

// c08units lists the (document, pointer block, signed) units of the sweep.
func c08units(c *Ctx) []c08unit {
	c08mu.Lock()
	defer c08mu.Unlock()
	key := fmt.Sprintf("%s/%d", c.Tier, c.Seed)
	if u, ok := c08cache[key]; ok {
		return u
	}
	var all []c08unit
	for _, d := range c.Corpus.Valid {
		v, err := ParseJV(d.Env)
		if err != nil {
			continue
		}
		n := len(Walk(v.Get("doc"), "/doc"))
		for from := 0; from < n; from += c08block {
			all = append(all, c08unit{d.Name, from, false})
			all = append(all, c08unit{d.Name, from, true})
		}
	}
	if c.Tier != "thorough" {
		// seeded sample: ~8 % of the blocks, at least one per document
		r := RNG(c.Seed, 0, 8)
		var pick []c08unit
		seen := map[string]bool{}
		for _, u := range all {
			if r.IntN(100) < 8 || !seen[u.doc] {
				pick = append(pick, u)
				seen[u.doc] = true
			}
		}
		all = pick
	}
	if c08cache == nil {
		c08cache = map[string][]c08unit{}
	}
	c08cache[key] = all
	return all
}

func planC08sweep(c *Ctx, run int64) *Plan {
	u := c08units(c)[run]
	d := c.Corpus.Get(u.doc)
	p := &Plan{Prop: "C08", Check: "sweep", Seed: c.Seed, Run: run, Str: map[string]string{"doc": u.doc}, Knobs: map[string]int64{}}
	if u.signed {
		p.Knobs["signed"] = 1
	}
	v, _ := ParseJV(d.Env)
	nodes := Walk(v.Get("doc"), "/doc")
	cat := c08catalog(c, d.Schema)
	r := RNG(c.Seed, run, 9)
	id := 0
	add := func(k, ptr string, o Op) {
		id++
		o.ID, o.K, o.S = id, k, ptr
		p.Ops = append(p.Ops, o)
	}
	to := u.from + c08block
	if to > len(nodes) {
		to = len(nodes)
	}
	if u.from == 0 {
		// the stored digest itself: any change to it must be evident too
		add("alter", "/head/dig/val", Op{I: int64(r.IntN(1 << 20))})
		add("truncate", "/head/dig/val", Op{I: 1})
		add("truncate", "/head/dig/val", Op{I: 32})
		add("caseflip", "/head/dig/val", Op{I: int64(r.IntN(1 << 20))})
		add("setstr", "/head/dig/alg", Op{S2: "sha512"})
		add("setstr", "/head/dig/alg", Op{S2: "SHA256"})
		add("setstr", "/head/dig/alg", Op{S2: "sha256 "})
	}
	for _, n := range nodes[u.from:to] {
		if n.Ptr == "/doc" {
			continue
		}
		switch n.V.K {
		case 's':
			add("alter", n.Ptr, Op{I: int64(r.IntN(1 << 20))})
			add("caseflip", n.Ptr, Op{I: int64(r.IntN(1 << 20))})
			add("append", n.Ptr, Op{S2: Pick(r, []string{"T23:59:59", " ", "0", ".0", "a", "Z", "-", "%"})})
			// white space around a text: the kind of difference a lenient reader or a
			// tidying validation rule makes disappear
			// (not around base64 text — members named "data" —: the decoder skips line
			// breaks there, the bytes read are the same, and a respelling of the same
			// value is outside this fault space, §5)
			if n.V.S != "" && !strings.HasSuffix(n.V.S, " ") && n.Key != "data" {
				add("append", n.Ptr, Op{S2: Pick(r, []string{" ", "\t", "\n"})})
				add("setstr", n.Ptr, Op{S2: " " + n.V.S})
			}
			if n.Key == "$regime" || n.Key == "country" {
				// another defined code, including the alternative codes some countries have
				for _, alt := range []string{"GR", "EL", "GB", "XI", "XU", "ES", "PT"} {
					if alt != n.V.S {
						add("setstr", n.Ptr, Op{S2: alt})
					}
				}
			}
		case 'n':
			add("alter", n.Ptr, Op{I: 1})
			add("alter", n.Ptr, Op{I: -1})
			if strings.ContainsAny(n.V.S, ".eE") {
				// a change at the scale of the last representable digits of a float
				add("numtext", n.Ptr, Op{S2: n.V.S + "00000001"})
				add("numtext", n.Ptr, Op{S2: strings.Replace(n.V.S, "-", "", 1)})
				add("numtext", n.Ptr, Op{S2: n.V.S + "e1"})
			}
		case 't', 'f':
			add("alter", n.Ptr, Op{})
		case 'a':
			if len(n.V.A) >= 2 {
				add("swap", n.Ptr, Op{I: int64(r.IntN(len(n.V.A) - 1))})
			}
			if len(n.V.A) >= 1 {
				add("delelem", n.Ptr, Op{I: int64(r.IntN(len(n.V.A)))})
				add("dupelem", n.Ptr, Op{I: int64(r.IntN(len(n.V.A)))})
			}
		case 'o':
			// add a member that other documents carry at this place
			g := typedPtr(v, n.Ptr)
			var cands []string
			for _, k := range SortedKeys(cat[g]) {
				if n.V.Get(k) == nil {
					cands = append(cands, k)
				}
			}
			for i := 0; i < 2 && len(cands) > 0; i++ {
				j := r.IntN(len(cands))
				add("addmember", n.Ptr, Op{S2: cands[j], S3: cat[g][cands[j]]})
				cands = append(cands[:j], cands[j+1:]...)
			}
			// maps from keys to text (extensions, meta): one more entry, with a value and without
			if last := n.Ptr[strings.LastIndex(n.Ptr, "/")+1:]; (last == "ext" || last == "meta") && len(n.V.M) > 0 {
				allStr := true
				for _, m := range n.V.M {
					if m.V == nil || m.V.K != 's' {
						allStr = false
					}
				}
				if allStr && n.V.Get("zz-added") == nil {
					add("addmember", n.Ptr, Op{S2: "zz-added", S3: `""`})
					add("addmember", n.Ptr, Op{S2: "zz-added", S3: `"x"`})
				}
			}
			// and members of the published schema that no corpus document carries at this place
			if strings.HasPrefix(n.Ptr, "/doc") && v.Get("doc") != nil {
				sm := schemaMembers(v.Get("doc"), strings.TrimPrefix(n.Ptr, "/doc"))
				var sk []string
				for _, k := range SortedKeys(sm) {
					if _, known := cat[g][k]; !known {
						sk = append(sk, k)
					}
				}
				nsk := 2
				if c.Tier == "thorough" {
					nsk = len(sk) // the exhaustive tier adds every one of them
				}
				for i := 0; i < nsk && len(sk) > 0; i++ {
					j := r.IntN(len(sk))
					vs := sm[sk[j]]
					if c.Tier == "thorough" {
						for _, sample := range vs {
							add("addmember", n.Ptr, Op{S2: sk[j], S3: sample, B: true})
						}
					} else {
						add("addmember", n.Ptr, Op{S2: sk[j], S3: vs[r.IntN(len(vs))], B: true})
					}
					sk = append(sk[:j], sk[j+1:]...)
				}
			}
		}
		if n.Parent != nil && n.Parent.K == 'o' {
			add("remove", n.Ptr, Op{})
		}
		if n.V.K == 's' || n.V.K == 'n' {
			add("rawflip", n.Ptr, Op{I: int64(r.IntN(1 << 20)), J: int64(r.IntN(8))})
		}
	}
	return p
}

// c08catalog: for each generic pointer of documents with this schema, the
// members seen there anywhere in the corpus, with a sample value (JSON text).
var (
	c08catMu sync.Mutex
	c08cat   = map[string]map[string]map[string]string{}
)

func c08catalog(c *Ctx, schema string) map[string]map[string]string {
	c08catMu.Lock()
	defer c08catMu.Unlock()
	if m, ok := c08cat[schema]; ok {
		return m
	}
	m := map[string]map[string]string{}
	for _, d := range c.Corpus.Valid {
		if d.Schema != schema {
			continue
		}
		v, err := ParseJV(d.Env)
		if err != nil {
			continue
		}
		for _, n := range Walk(v.Get("doc"), "/doc") {
			if n.V.K != 'o' {
				continue
			}
			g := typedPtr(v, n.Ptr)
			if m[g] == nil {
				m[g] = map[string]string{}
			}
			for _, mem := range n.V.M {
				if strings.HasPrefix(mem.Key, "$") {
					continue
				}
				if _, ok := m[g][mem.Key]; !ok {
					m[g][mem.Key] = string(mem.V.Encode(nil))
				}
			}
		}
	}
	c08cat[schema] = m
	return m
}

func uuidLike(s string) bool {
	if len(s) != 36 {
		return false
	}
	for i, c := range s {
		switch i {
		case 8, 13, 18, 23:
			if c != '-' {
				return false
			}
		default:
			if !((c >= '0' && c <= '9') || (c >= 'a' && c <= 'f') || (c >= 'A' && c <= 'F')) {
				return false
			}
		}
	}
	return true
}

// typedPtr keys a pointer by its nearest enclosing object that declares a
// $schema (complements and nested objects have their own member sets) plus the
// generic pointer below it.
func typedPtr(root *JV, ptr string) string {
	parts := strings.Split(ptr, "/")
	for i := len(parts); i >= 1; i-- {
		pre := strings.Join(parts[:i], "/")
		v, _, _, _ := At(root, pre)
		if v != nil && v.K == 'o' && v.Get("$schema") != nil {
			return v.Get("$schema").Str() + "|" + GenericPtr(ptr[len(pre):])
		}
	}
	return "|" + GenericPtr(ptr)
}

// mutateLeafString changes exactly one alphanumeric character into a different
// character of the same class (digit/lower/upper). ok=false if none exists.
func mutateLeafString(s string, sel int64) (string, bool) {
	var idx []int
	for i := 0; i < len(s); i++ {
		c := s[i]
		if (c >= '0' && c <= '9') || (c >= 'a' && c <= 'z') || (c >= 'A' && c <= 'Z') {
			idx = append(idx, i)
		}
	}
	if len(idx) == 0 {
		return s, false
	}
	i := idx[int(sel)%len(idx)]
	b := []byte(s)
	c := b[i]
	switch {
	case c >= '0' && c <= '9':
		b[i] = '0' + (c-'0'+1+byte(sel/7%8))%10
		if b[i] == c {
			b[i] = '0' + (c-'0'+1)%10
		}
	case c >= 'a' && c <= 'z':
		b[i] = 'a' + (c-'a'+1+byte(sel/7%20))%26
		if b[i] == c {
			b[i] = 'a' + (c-'a'+1)%26
		}
	default:
		b[i] = 'A' + (c-'A'+1+byte(sel/7%20))%26
		if b[i] == c {
			b[i] = 'A' + (c-'A'+1)%26
		}
	}
	return string(b), true
}

// applyStoreFault applies one content-changing fault to the envelope tree.
// Returns the damaged bytes and whether the fault applied.
func applyStoreFault(root *JV, op Op) ([]byte, bool) {
	v, parent, key, idx := At(root, op.S)
	if v == nil {
		return nil, false
	}
	switch op.K {
	case "alter":
		switch v.K {
		case 's':
			ns, ok := mutateLeafString(v.S, op.I)
			if !ok {
				return nil, false
			}
			v.S = ns
		case 'n':
			// integer ±1 on the textual number when it is a plain integer
			var n int64
			if _, err := fmt.Sscanf(v.S, "%d", &n); err != nil || fmt.Sprint(n) != v.S {
				ns, ok := mutateLeafString(v.S, op.I+7)
				if !ok {
					return nil, false
				}
				v.S = ns
			} else {
				v.S = fmt.Sprint(n + op.I)
			}
		case 't':
			v.K = 'f'
		case 'f':
			v.K = 't'
		default:
			return nil, false
		}
	case "append":
		if v.K != 's' {
			return nil, false
		}
		v.S += op.S2
	case "setstr":
		if v.K != 's' || v.S == op.S2 {
			return nil, false
		}
		v.S = op.S2
	case "truncate":
		if v.K != 's' || len(v.S) <= int(op.I) {
			return nil, false
		}
		v.S = v.S[:len(v.S)-int(op.I)]
	case "caseflip":
		// flip the case of one letter of a string VALUE (member names are never touched)
		if v.K != 's' || uuidLike(v.S) {
			// identifiers are case-insensitive by definition (RFC 4122): not a content change
			return nil, false
		}
		var idx []int
		for i := 0; i < len(v.S); i++ {
			c := v.S[i]
			if (c >= 'a' && c <= 'z') || (c >= 'A' && c <= 'Z') {
				idx = append(idx, i)
			}
		}
		if len(idx) == 0 {
			return nil, false
		}
		b := []byte(v.S)
		b[idx[int(op.I)%len(idx)]] ^= 0x20
		v.S = string(b)
	case "numtext":
		if v.K != 'n' || v.S == op.S2 {
			return nil, false
		}
		v.S = op.S2
	case "remove":
		if parent == nil || parent.K != 'o' || !parent.Del(key) {
			return nil, false
		}
	case "addmember":
		if v.K != 'o' || v.Get(op.S2) != nil {
			return nil, false
		}
		nv, err := ParseJV([]byte(op.S3))
		if err != nil {
			return nil, false
		}
		v.M = append(v.M, JM{op.S2, nv})
	case "swap":
		if v.K != 'a' || int(op.I)+1 >= len(v.A) {
			return nil, false
		}
		i := int(op.I)
		if v.A[i].Equal(v.A[i+1]) {
			return nil, false
		}
		v.A[i], v.A[i+1] = v.A[i+1], v.A[i]
	case "delelem":
		if v.K != 'a' || int(op.I) >= len(v.A) {
			return nil, false
		}
		i := int(op.I)
		v.A = append(v.A[:i:i], v.A[i+1:]...)
	case "dupelem":
		if v.K != 'a' || int(op.I) >= len(v.A) {
			return nil, false
		}
		i := int(op.I)
		na := append([]*JV{}, v.A[:i+1]...)
		na = append(na, v.A[i].Clone())
		na = append(na, v.A[i+1:]...)
		v.A = na
	case "rawflip":
		// flip one bit of one byte of the value's text, in place in the stored bytes
		if v.K != 's' && v.K != 'n' {
			return nil, false
		}
		marker := "\x00VERIFMARK\x00"
		orig := v.S
		origK := v.K
		v.K, v.S = 's', marker
		text := string(root.Encode(nil))
		v.K, v.S = origK, orig
		var lit string
		if origK == 's' {
			lit = string(JStr(orig).Encode(nil))
			lit = lit[1 : len(lit)-1] // inside the quotes
		} else {
			lit = orig
		}
		if len(lit) == 0 {
			return nil, false
		}
		b := []byte(lit)
		pos := int(op.I) % len(b)
		b[pos] ^= 1 << uint(op.J)
		mk := string(JStr(marker).Encode(nil))
		var repl string
		if origK == 's' {
			repl = `"` + string(b) + `"`
		} else {
			repl = string(b)
		}
		_ = idx
		return []byte(strings.Replace(text, mk, repl, 1)), true
	default:
		return nil, false
	}
	return root.Encode(nil), true
}

func c08base(x *X, d *Doc, signed bool) (*gobl.Envelope, []byte, bool) {
	env, err := ParseEnv(d.Env)
	if err != nil {
		x.R.Infra = "corpus envelope does not parse: " + err.Error()
		return nil, nil, false
	}
	if signed {
		x.Entropy(0)
		if err := env.Sign(PrivKey(0)); err != nil {
			// documents that cannot be signed (e.g. no code) are swept unsigned only
			return nil, nil, false
		}
		x.Probe("signed-envelope-swept")
	}
	return env, Marshal(env), true
}

func execC08sweep(x *X) {
	d := x.C.Corpus.Get(x.P.Str["doc"])
	if d == nil {
		x.R.Infra = "corpus document missing"
		return
	}
	signed := x.P.Knob("signed", 0) == 1
	_, base, ok := c08base(x, d, signed)
	if !ok {
		return
	}
	baseTree, _ := ParseJV(base)
	baseDoc := baseTree.Get("doc")
	oldDig := baseTree.Get("head").Get("dig").Get("val").Str()
	// the stored envelope itself must validate
	if e0, err := ParseEnv(base); err != nil || e0.Validate() != nil {
		x.Violate("base-invalid/"+d.Kind, "calculated envelope does not validate after persist/restore: %v", err)
		return
	}
	for i, op := range x.P.Ops {
		tree := baseTree.Clone()
		dam, ok := applyStoreFault(tree, op)
		if !ok {
			continue
		}
		caseID := fmt.Sprintf("%s|%v|%s|%s", d.Name, signed, op.K, op.S)
		if op.K == "alter" && op.I != 0 {
			caseID += fmt.Sprint("|", op.I)
		}
		damTree, perr := ParseJV(dam)
		if op.K == "rawflip" {
			if perr != nil {
				// not JSON any more: the reader must refuse it
				if _, err := ParseEnv(dam); err == nil {
					x.Violate("accepts-invalid-json:"+GenericPtr(op.S), "bytes that are not valid JSON were parsed as an envelope: %q", trunc(string(dam), 200))
				}
				x.Case(caseID)
				x.Fault("raw-bitflip")
				x.Probe("detected-by-parse")
				continue
			}
			dv, _, _, _ := At(damTree, op.S)
			ov, _, _, _ := At(baseTree, op.S)
			if dv == nil || ov == nil || dv.Equal(ov) || strings.EqualFold(dv.S, ov.S) {
				continue // no content change (or case-only)
			}
			if !damTree.Get("head").Equal(baseTree.Get("head")) {
				continue
			}
		}
		x.Case(caseID)
		x.Fault("store-" + op.K)
		outcome, detail := c08judge(x, dam, damTree, baseDoc, oldDig)
		x.Step(i, "store", op.K, op.S+"|"+outcome)
		switch outcome {
		case "undetected":
			x.Violate("undetected:"+op.K+":"+GenericPtr(op.S), "%s at %s of %s (signed=%v) went unnoticed: the envelope still validates without recalculation. %s", op.K, op.S, d.Name, signed, detail)
		case "wrong-key":
			x.Violate("not-digest-error:"+op.K+":"+GenericPtr(op.S), "%s at %s of %s: the changed document is valid when recalculated, yet validation of the stored envelope failed with %s instead of a digest error", op.K, op.S, d.Name, detail)
		case "same-digest":
			x.Violate("same-digest:"+op.K+":"+GenericPtr(op.S), "%s at %s of %s: after recalculation the content differs but the digest is unchanged. %s", op.K, op.S, d.Name, detail)
		}
	}
}

// c08judge restores damaged bytes and classifies what happens.
func c08judge(x *X, dam []byte, damTree *JV, baseDoc *JV, oldDig string) (outcome, detail string) {
	defer func() {
		if r := recover(); r != nil {
			x.Probe("panic-on-damaged-document")
			outcome, detail = "panic", fmt.Sprint(r)
		}
	}()
	env, err := ParseEnv(dam)
	if err != nil {
		x.Probe("detected-by-parse")
		return "parse-error", err.Error()
	}
	verr := env.Validate()
	key := errKey(verr)
	// recalculate in a fresh envelope to learn whether the damaged document is a good document
	fresh, err2 := ParseEnv(dam)
	recalcOK := false
	if err2 == nil {
		func() {
			defer func() {
				if r := recover(); r != nil {
					x.Probe("panic-on-damaged-document")
				}
			}()
			fresh.Signatures = nil
			if fresh.Calculate() == nil {
				nb := Marshal(fresh)
				nt, _ := ParseJV(nb)
				if nt != nil {
					newDig := nt.Get("head").Get("dig").Get("val").Str()
					if !nt.Get("doc").Equal(baseDoc) && newDig == oldDig {
						outcome = "same-digest"
						detail = DiffDetail(baseDoc.Encode(nil), nt.Get("doc").Encode(nil))
					}
					if newDig != oldDig {
						x.Probe("recalculated-digest-differs")
					}
				}
				if fresh.Validate() == nil {
					recalcOK = true
				}
			}
		}()
	}
	if outcome == "same-digest" {
		return
	}
	switch {
	case verr == nil:
		// the reader may have normalised the damage away while parsing: show what it sees
		seen := Marshal(env.Document)
		return "undetected", "document as the reader sees it differs from the original at " + FirstDiff(baseDoc.Encode(nil), seen)
	case key == "digest":
		x.Probe("detected-by-digest")
		return "digest", ""
	default:
		// Validation runs the structural rules before comparing the digest, so a
		// damaged document that is also structurally invalid reports its structural
		// error first; either way the change is evident and the envelope is refused.
		_ = recalcOK
		x.Probe("detected-by-validation")
		return "invalid", key
	}
}

func planC08re(c *Ctx, run int64) *Plan {
	docs := c.Corpus.Valid
	d := docs[int(run)%len(docs)]
	r := RNG(c.Seed, run, 10)
	p := &Plan{Prop: "C08", Check: "reencode", Seed: c.Seed, Run: run, Str: map[string]string{"doc": d.Name}, Knobs: map[string]int64{"signed": int64(r.IntN(2))}}
	for i := 0; i < 4; i++ {
		p.Ops = append(p.Ops, Op{ID: i + 1, K: "reencode", I: int64(r.Uint32())})
	}
	return p
}

func execC08re(x *X) {
	d := x.C.Corpus.Get(x.P.Str["doc"])
	if d == nil {
		x.R.Infra = "corpus document missing"
		return
	}
	signed := x.P.Knob("signed", 0) == 1
	_, base, ok := c08base(x, d, signed)
	if !ok {
		_, base, ok = c08base(x, d, false)
		if !ok {
			return
		}
		signed = false
	}
	bt, _ := ParseJV(base)
	oldDig := bt.Get("head").Get("dig").Get("val").Str()
	for i, op := range x.P.Ops {
		re, err := Reencode(base, op.I, false)
		if err != nil {
			x.R.Infra = err.Error()
			return
		}
		x.Case(fmt.Sprintf("%s|%v|re|%d", d.Name, signed, op.I))
		x.Fault("re-encode")
		func() {
			defer func() {
				if r := recover(); r != nil {
					x.Violate("reencoded:panic/"+d.Kind, "panic while reading a re-encoded envelope: %v", r)
				}
			}()
			env, err := ParseEnv(re)
			if err != nil {
				x.Violate("reencoded:parse:"+c08errClass(err), "a content-preserving re-encoding (member order, whitespace, string escapes) of %s no longer parses: %v\n%s", d.Name, err, c08where(re, err))
				return
			}
			if err := env.Validate(); err != nil {
				x.Violate("reencoded:validate:"+errKey(err), "a content-preserving re-encoding of %s no longer validates: %v", d.Name, err)
				return
			}
			x.Probe("reencoded-validates")
			sigs := env.Signatures
			env.Signatures = nil
			if err := env.Calculate(); err != nil {
				x.Violate("reencoded:recalc/"+d.Kind, "re-encoded envelope cannot be recalculated: %v", err)
				return
			}
			env.Signatures = sigs
			nb := Marshal(env)
			nt, _ := ParseJV(nb)
			if nt.Get("head").Get("dig").Get("val").Str() != oldDig {
				x.Violate("reencoded:digest-changed/"+d.Kind, "recalculating a re-encoded envelope changed the digest; %s", DiffDetail(base, nb))
			}
		}()
		x.Step(i, "store", "reencode", fmt.Sprint(op.I))
	}
}

func c08errClass(err error) string {
	s := err.Error()
	for _, k := range []string{"invalid decimal", "invalid major", "invalid minor", "percentage", "date", "uuid", "invalid character", "cannot unmarshal"} {
		if strings.Contains(s, k) {
			return strings.ReplaceAll(k, " ", "-")
		}
	}
	return firstWords(s, 2)
}

func c08where(b []byte, err error) string {
	return "input: " + trunc(string(b), 300)
}

var _ = sort.Strings

// ---------------------------------------------------------------------------
// check "inmemory": the same clause for a change made to the live object after a restore
// (through the typed API, no serialisation involved): without recalculating, validation
// must fail; after recalculating the digest differs.

func init() {
	pd := props["C08"]
	pd.Checks = append(pd.Checks, &CheckDef{
		Name:    "inmemory",
		NumRuns: func(c *Ctx) int64 { return int64(len(c.Corpus.Valid)) },
		Plan: func(c *Ctx, run int64) *Plan {
			d := c.Corpus.Valid[run]
			return &Plan{Prop: "C08", Check: "inmemory", Seed: c.Seed, Run: run, Str: map[string]string{"doc": d.Name},
				Ops: []Op{{ID: 1, K: "live", S: "quantity"}, {ID: 2, K: "live", S: "name"}, {ID: 3, K: "live", S: "note"}, {ID: 4, K: "live", S: "meta"}}}
		},
		Exec:       execC08live,
		Exhaustive: func(c *Ctx) bool { return true },
	})
	pd.RequiredProbes = append(pd.RequiredProbes, "in-memory-edit-detected")
}

// liveEditAny changes one business value of a restored envelope in memory.
func liveEditAny(env *gobl.Envelope, what string) bool {
	return liveEditDoc(env.Extract(), what)
}

// liveEditDoc changes one business value through a pointer to the document
// the caller already holds.
func liveEditDoc(held any, what string) bool {
	switch doc := held.(type) {
	case *bill.Invoice:
		return liveBill(&doc.Lines, &doc.Supplier, &doc.Notes, &doc.Meta, what)
	case *bill.Order:
		return liveBill(&doc.Lines, &doc.Supplier, &doc.Notes, &doc.Meta, what)
	case *bill.Delivery:
		return liveBill(&doc.Lines, &doc.Supplier, &doc.Notes, &doc.Meta, what)
	case *bill.Payment:
		switch what {
		case "name":
			if doc.Supplier != nil {
				doc.Supplier.Name += " (edited)"
				return true
			}
		case "meta":
			doc.Meta = cbc.Meta{"edited": "yes"}
			return true
		case "quantity":
			if len(doc.Lines) > 0 && doc.Lines[0].Debit != nil {
				a := doc.Lines[0].Debit.Add(num.MakeAmount(1, 0))
				doc.Lines[0].Debit = &a
				return true
			}
		}
	case *org.Party:
		if what == "name" {
			doc.Name += " (edited)"
			return true
		}
	case *note.Message:
		if what == "note" {
			doc.Content += " (edited)"
			return true
		}
	}
	return false
}

func liveBill(lines *[]*bill.Line, supplier **org.Party, notes *[]*org.Note, meta *cbc.Meta, what string) bool {
	switch what {
	case "quantity":
		if len(*lines) > 0 && (*lines)[0] != nil {
			(*lines)[0].Quantity = (*lines)[0].Quantity.Add(num.MakeAmount(1, 0))
			return true
		}
	case "name":
		if *supplier != nil {
			(*supplier).Name += " (edited)"
			return true
		}
	case "note":
		*notes = append(*notes, &org.Note{Text: "edited in memory"})
		return true
	case "meta":
		m := cbc.Meta{}
		for k, v := range *meta {
			m[k] = v
		}
		m["edited"] = "yes"
		*meta = m
		return true
	}
	return false
}

func execC08live(x *X) {
	d := x.C.Corpus.Get(x.P.Str["doc"])
	if d == nil {
		x.R.Infra = "corpus document missing"
		return
	}
	for i, op := range x.P.Ops {
		for _, signed := range []bool{false, true} {
			_, base, ok := c08base(x, d, signed)
			if !ok {
				continue
			}
			// what the holder of the envelope did between taking the document
			// out and changing it: nothing, or read-only operations (which
			// must not let a later change go unnoticed)
			for pre, preName := range []string{"", "validate", "serialise", "validate+serialise+digest"} {
				env, err := ParseEnv(base) // the restart: only durable bytes survive
				if err != nil {
					continue
				}
				held := env.Extract()
				if pre != 0 {
					if p := safely(func() {
						if pre == 1 || pre == 3 {
							_ = env.Validate()
						}
						if pre == 2 || pre == 3 {
							_, _ = json.Marshal(env)
						}
						if pre == 3 {
							_, _ = env.Digest()
						}
					}); p != "" {
						continue
					}
					x.Probe("in-memory-edit-after-read-only-use")
				}
				if !liveEditDoc(held, op.S) {
					continue
				}
				x.Case(fmt.Sprintf("%s|%v|live|%s|%s", d.Name, signed, op.S, preName))
				x.Fault("in-memory-edit")
				var verr error
				if p := safely(func() { verr = env.Validate() }); p != "" {
					x.Probe("panic-on-edited-document")
					continue
				}
				if verr == nil {
					x.Violate("undetected:inmemory:"+op.S+"/"+d.Kind+":"+preName, "the %s of %s (signed=%v) was changed in memory (through the document pointer taken right after the envelope was restored from its stored bytes; read-only use before the change: %q), nothing was recalculated, and the envelope still validates", op.S, d.Name, signed, preName)
					continue
				}
				x.Probe("in-memory-edit-detected")
			}
			env, err := ParseEnv(base)
			if err != nil || !liveEditAny(env, op.S) {
				continue
			}
			if p := safely(func() { _ = env.Validate() }); p != "" {
				continue
			}
			old := env.Head.Digest.Value
			sigs := env.Signatures
			env.Signatures = nil
			if err := env.Calculate(); err == nil && env.Head.Digest.Value == old {
				x.Violate("same-digest:inmemory:"+op.S+"/"+d.Kind, "after changing the %s of %s in memory and recalculating, the digest is unchanged", op.S, d.Name)
			}
			env.Signatures = sigs
		}
		x.Step(i, "store", "live", op.S)
	}
}
