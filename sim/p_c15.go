package verifsim

import (
	"bytes"
	"context"
	"encoding/json"
	"fmt"
	"net/http"
	"net/http/httptest"
	"sort"
	"strings"
	"sync"
	"time"

	"github.com/invopop/gobl/dsig"
	"github.com/invopop/gobl/internal/cli"
)

// C15 — concurrent use is race-free and result-equivalent; bulk replies pair up.
// World W-BULK: 1–3 concurrent bulk streams, each fed through a simulated reader
// and drained by a consumer; gobl's decoder and worker goroutines park at the
// guarded yield hooks; a seeded scheduler decides every interleaving.

type bulkReq struct {
	Action  string
	ReqID   string
	Payload any
	Indent  bool
	SleepNS int64
	Raw     []byte // pre-rendered request line (malformed requests)
	Bad     bool   // the decoder will fail on this line: the stream ends here
}

type bulkStream struct {
	idx       int
	style     string // "cli" (harness drains cli.Bulk) or "http" (the /bulk handler drains it)
	reqs      []bulkReq
	input     []byte
	rd        *SimReader
	opts      *cli.BulkOptions
	mu        sync.Mutex
	resp      []wireResp
	httpOut   *SimWriter
	closed    bool
	expect    map[int64]string // seq -> normalised standalone payload or "error:<...>"
	nOK       int              // requests the decoder will accept
	decErr    bool             // the stream ends in a decode error
	ctx       context.Context
	cancel    context.CancelFunc
	cancelled bool // the caller's context was cancelled while the stream was open
	defKey    int  // pool index of the stream's default signing key, -1 for none
}

func init() {
	register(&PropDef{
		ID:    "C15",
		Level: "exploration",
		Rule: "check 'bulk': 1–3 concurrent bulk streams (CLI-style cli.Bulk and HTTP-style /bulk handler) of 1–40 mixed requests (build, sign, verify, validate, correct, replicate, ping, sleep with virtual latencies, schemas, schema, regime, keygen, unknown) over corpus documents; the reader delivers seeded chunk sizes, the consumer lags, and a seeded weighted scheduler chooses at every yield point (decode, worker start, worker processed/send, drain, final, delivery, consume, clock advance, the caller going away) which task proceeds; oracle: per accepted request exactly one response with its req_id and 1-based position whose payload equals the standalone operation executed at the same simulated instant, one final marker, last, with seq n+1, nothing after it; bounded liveness in scheduler steps once input is closed. " +
			"check 'interleave': 2–8 library callers over independent documents (every regime × addon pairing of the corpus, plus regime base invoices crossed with every addon) advanced in scheduler-chosen order, per-step outputs equal to each slot's solo run; check 'shared': deep fingerprint of every package-level variable of every gobl package unchanged after every operation; checks 'race', 'racebulk' and 'racecold' (race-detector monitors, not deterministic): the same library workload (incl. one option list shared by all callers, stamped envelopes, undated documents), free-running bulk streams (HTTP-style ones on one shared server, a strict response writer, a slow client every fourth run) with the pairing oracle, at GOMAXPROCS 1/4/16, and fresh -race processes that load nothing before 4-12 callers are released at once on one corpus source or shipped envelope (first use of lazily initialised state). A case is a distinct (plan shape, grant-sequence hash); non-trivial when ≥ 2 tasks were interleaved",
		Assumptions: []string{
			"requests of one stream operate on independent documents, so the sequential specification is a pure function per request and per-request equality is the complete check (no linearizability search needed)",
			"fields the process generates itself when the input lacks them (head.uuid, signatures, key material, identifiers of corrected/replicated documents) are excluded from payload equality",
			"the race monitor observes the Go runtime's own interleavings; its replay is probabilistic",
		},
		RequiredProbes: []string{"responses-out-of-arrival-order", "worker-parked-before-send-while-final-pending", "consumer-lagged-channel-full", "stream-ended-in-decode-error", "clock-advanced-for-sleep"},
		Checks: []*CheckDef{
			{
				Name:   "bulk",
				Bubble: true,
				NumRuns: func(c *Ctx) int64 {
					if c.Tier == "thorough" {
						return 60000
					}
					return 600
				},
				Plan:             func(c *Ctx, run int64) *Plan { return planBulk(c, run, "C15", false) },
				Exec:             execBulk,
				CrashIsViolation: true,
			},
		},
	})
}

var bulkActions = []string{"build", "build", "sign", "verify", "validate", "correct", "replicate", "ping", "sleep", "schemas", "schema", "regime", "keygen", "unknown", "no-action"}

// planBulk generates a bulk plan; malformed=true mixes in damaged requests (C14).
func planBulk(c *Ctx, run int64, prop string, malformed bool) *Plan {
	r := RNG(c.Seed, run, 15)
	p := &Plan{Prop: prop, Check: "bulk", Seed: c.Seed, Run: run, Knobs: map[string]int64{}}
	nstreams := Pick(r, []int{1, 1, 1, 2, 2, 3})
	p.Knobs["streams"] = int64(nstreams)
	for _, cls := range []string{"delivery", "decoder", "worker-start", "worker-send", "consumer", "clock"} {
		p.Knobs["w:"+cls] = Pick(r, []int64{1, 1, 2, 6, 20, 60, 200})
	}
	id := 0
	docs := c.Corpus.Valid
	for s := 0; s < nstreams; s++ {
		p.Knobs[fmt.Sprintf("chunk%d", s)] = Pick(r, []int64{1, 7, 64, 512, 4096, 0})
		p.Knobs[fmt.Sprintf("http%d", s)] = int64(r.IntN(2))
		p.Knobs[fmt.Sprintf("indent%d", s)] = int64(r.IntN(2))
		n := Pick(r, []int{1, 2, 3, 4, 6, 8, 12, 20, 40})
		if c.Tier != "thorough" && n > 12 {
			n = 12
		}
		for i := 0; i < n; i++ {
			id++
			op := Op{ID: id, K: "req", N: int64(s), S: Pick(r, bulkActions), S2: Pick(r, docs).Name, B: Chance(r, 0.2)}
			if op.S == "sleep" {
				op.I = Pick(r, []int64{1000, 1e6, 5e8, 3e9, 6e10, 36e11, 1728e11}) // 1µs … 48h
			}
			if malformed && Chance(r, 0.35) {
				op.S3 = Pick(r, []string{"payload-null", "payload-string", "data-not-base64", "doc-member-lost", "doc-retyped", "sigs-empty", "unknown-currency", "deep", "no-action"})
				op.I = int64(r.IntN(1 << 20))
			}
			p.Ops = append(p.Ops, op)
		}
		if Chance(r, 0.25) {
			// the stream itself ends badly: torn JSON or garbage after the last request
			id++
			p.Ops = append(p.Ops, Op{ID: id, K: "tail", N: int64(s), S: Pick(r, []string{"garbage", "torn", "array", "eof-mid-request"})})
		}
	}
	// starvation directives
	for i, n := 0, r.IntN(3); i < n; i++ {
		id++
		p.Ops = append(p.Ops, Op{ID: id, K: "starve", S: Pick(r, []string{"consumer", "worker-send", "worker-start", "decoder", "delivery"}), I: int64(5 + r.IntN(60))})
	}
	ns := 40 + r.IntN(400)
	for i := 0; i < ns; i++ {
		p.Sched = append(p.Sched, r.IntN(1<<16))
	}
	// the caller of a stream goes away at a moment the scheduler chooses: its context is
	// cancelled (CLI-style) / the client disconnects (HTTP-style) while the input still delivers
	for s := 0; s < nstreams; s++ {
		if Chance(r, 0.2) {
			p.Knobs[fmt.Sprintf("cancel%d", s)] = 1
		}
	}
	p.Knobs["w:cancel"] = Pick(r, []int64{1, 1, 2, 6})
	// a stream of a process started without a signing key: only requests that bring their own can be signed
	for s := 0; s < nstreams; s++ {
		if Chance(r, 0.25) {
			p.Knobs[fmt.Sprintf("nokey%d", s)] = 1
		}
	}
	return p
}

func (x *X) signedEnv(d *Doc) []byte {
	env, err := ParseEnv(d.Env)
	if err != nil {
		return d.Env
	}
	if err := env.Sign(PrivKey(0)); err != nil {
		return d.Env
	}
	return Marshal(env)
}

// buildRequest renders one request from its op.
func (x *X) buildRequest(op Op, n int) bulkReq {
	d := x.C.Corpus.Get(op.S2)
	if d == nil {
		d = x.C.Corpus.Valid[0]
	}
	rq := bulkReq{Action: op.S, ReqID: fmt.Sprintf("s%d-r%d", op.N, n), Indent: op.B}
	src := d.Src
	envb := d.Env
	if op.S3 != "" {
		// malformed variants (C14): damage the document or the payload
		tree, _ := ParseJV(d.Env)
		switch op.S3 {
		case "doc-member-lost":
			nodes := Walk(tree.Get("doc"), "/doc")
			nd := nodes[int(op.I)%len(nodes)]
			if b, ok := applyStoreFault(tree, Op{K: "remove", S: nd.Ptr}); ok {
				envb = b
			}
		case "doc-null-elem":
			var arrs []Node
			for _, nd := range Walk(tree.Get("doc"), "/doc") {
				if nd.V.K == 'a' && len(nd.V.A) > 0 {
					arrs = append(arrs, nd)
				}
			}
			if len(arrs) > 0 {
				nd := arrs[int(op.I)%len(arrs)]
				nd.V.A[0] = &JV{K: 'z'}
				envb = tree.Encode(nil)
			}
		case "doc-retyped":
			nodes := Walk(tree.Get("doc"), "/doc")
			nd := nodes[int(op.I)%len(nodes)]
			if b, ok := c14mutate(tree, Op{K: "retype", S: nd.Ptr, I: op.I}); ok {
				envb = b
			}
		case "sigs-empty":
			if b, ok := corruptSigs(d.Env, "empty"); ok {
				envb = b
			}
		case "unknown-currency":
			tree.Get("doc").Set("currency", JStr("ZZZ"))
			envb = tree.Encode(nil)
		case "deep":
			envb = []byte(strings.Repeat("[", 20000) + strings.Repeat("]", 20000))
		}
		if t2, err := ParseJV(envb); err == nil && t2.Get("doc") != nil {
			src = t2.Get("doc").Encode(nil)
		} else {
			src = envb
		}
	}
	switch op.S {
	case "build":
		rq.Payload = map[string]any{"data": src, "envelop": n%2 == 0}
		if d.IsEnv {
			rq.Payload = map[string]any{"data": src}
		}
	case "sign":
		pl := map[string]any{"data": src}
		if n%2 == 0 {
			pl["privatekey"] = json.RawMessage(PrivKeyJSON(n % 3))
		}
		rq.Payload = pl
	case "verify":
		b := envb
		if op.S3 == "" {
			b = x.signedEnv(d)
		}
		rq.Payload = map[string]any{"data": b, "publickey": json.RawMessage(PubKeyJSON(n % 2))}
	case "validate":
		rq.Payload = map[string]any{"data": envb}
	case "correct":
		rq.Payload = map[string]any{"data": envb, "options": []byte(`{"type":"credit-note","reason":"bulk"}`)}
		if n%3 == 1 {
			rq.Payload = map[string]any{"data": envb, "options": []byte(`{"type":"credit-note","reason":"bulk","copy_tax":true,"series":"C"}`)}
		}
		if n%3 == 0 {
			rq.Payload = map[string]any{"data": envb, "schema": true}
		}
	case "replicate":
		rq.Payload = map[string]any{"data": envb}
	case "sleep":
		rq.Payload = time.Duration(op.I).String()
		rq.SleepNS = op.I
	case "schema":
		rq.Payload = map[string]any{"path": []string{"bill/invoice", "envelope", "org/party", "nope/missing"}[n%4]}
	case "regime":
		rq.Payload = map[string]any{"code": []string{"es", "PT", "mx", "zz"}[n%4]}
	case "unknown":
		rq.Action = "frobnicate"
	case "no-action":
		// a request that names no action at all still takes a position and must be answered
		rq.Action = ""
	}
	switch op.S3 {
	case "payload-null":
		rq.Payload = nil
	case "payload-string":
		rq.Payload = "not an object"
	case "data-not-base64":
		rq.Payload = map[string]any{"data": "%%%not-base64%%%"}
	case "no-action":
		rq.Action = ""
	}
	return rq
}

func (rq *bulkReq) line() []byte {
	if rq.Raw != nil {
		return rq.Raw
	}
	m := map[string]any{"action": rq.Action, "req_id": rq.ReqID}
	if rq.Payload != nil {
		m["payload"] = rq.Payload
	}
	if rq.Indent {
		m["indent"] = true
	}
	b, _ := json.Marshal(m)
	return append(b, '\n')
}

// normPayload removes what each execution generates by itself.
func normPayload(action string, payload []byte, errObj json.RawMessage) string {
	if len(errObj) > 0 && string(errObj) != "null" {
		if v, err := ParseJV(errObj); err == nil {
			return "error:" + string(v.Encode(nil))
		}
		return "error:" + string(errObj)
	}
	switch action {
	case "keygen":
		v, err := ParseJV(payload)
		if err != nil || v.Get("private") == nil || v.Get("public") == nil {
			return "keygen:malformed:" + string(payload)
		}
		return "keygen:ok"
	case "build", "sign", "correct", "replicate":
		v, err := ParseJV(payload)
		if err != nil {
			return "unparseable:" + string(payload)
		}
		// identifiers the process generated itself because the input lacked them: v7 ids
		// stamped by the simulated clock (which starts in 2000) are recognisable by their prefix
		for _, nd := range Walk(v, "") {
			if nd.Key == "uuid" && nd.V.K == 's' && len(nd.V.S) == 36 && strings.HasPrefix(nd.V.S, "00") && nd.V.S[14] == '7' {
				nd.V.S = "(generated)"
				if h := v.Get("head"); h != nil {
					h.Del("dig") // the digest covers the generated identifier
				}
			}
		}
		if h := v.Get("head"); h != nil {
			h.Del("uuid")
			if action == "correct" || action == "replicate" {
				h.Del("dig")
			}
		}
		if v.Get("sigs") != nil {
			v.Set("sigs", JStr("(signatures)"))
		}
		if action == "correct" || action == "replicate" {
			if d := v.Get("doc"); d != nil {
				d.Del("uuid")
			} else {
				v.Del("uuid")
			}
		}
		return string(v.Encode(nil))
	}
	v, err := ParseJV(payload)
	if err != nil {
		return "unparseable:" + string(payload)
	}
	return string(v.Encode(nil))
}

// standalone executes one request alone, through a one-request bulk stream
// without any scheduling, at the current simulated instant.
func standalone(rq *bulkReq, defKey int) string {
	saved := cli.SimYield
	cli.SimYield = nil
	defer func() { cli.SimYield = saved }()
	if rq.Action == "sleep" && rq.SleepNS > 0 {
		// a well-formed sleep: do not spend virtual time for the oracle
		if s, ok := rq.Payload.(string); ok && s == time.Duration(rq.SleepNS).String() {
			return `{"sleep":"done"}`
		}
	}
	var first *cli.BulkResponse
	var dk *dsig.PrivateKey
	if defKey >= 0 {
		dk = PrivKey(defKey)
	}
	for res := range cli.Bulk(context.Background(), &cli.BulkOptions{In: bytes.NewReader(rq.line()), DefaultPrivateKey: dk}) {
		if !res.IsFinal && first == nil {
			first = res
		}
	}
	if first == nil {
		return "no-response"
	}
	w := toWire(first)
	return normPayload(rq.Action, w.Payload, w.Error)
}

// wireResp is a bulk response as it appears on the wire.
type wireResp struct {
	ReqID   string          `json:"req_id"`
	SeqID   int64           `json:"seq_id"`
	Payload json.RawMessage `json:"payload"`
	Error   json.RawMessage `json:"error"`
	IsFinal bool            `json:"is_final"`
	// rawMulti: whether the payload as handed over by cli.Bulk (before any re-encoding) spans lines
	rawMulti *bool
}

func (w *wireResp) hasError() bool { return len(w.Error) > 0 && string(w.Error) != "null" }

func toWire(r *cli.BulkResponse) wireResp {
	var w wireResp
	b, _ := json.Marshal(r)
	_ = json.Unmarshal(b, &w)
	m := bytes.Contains(bytes.TrimSpace(r.Payload), []byte("\n"))
	w.rawMulti = &m
	return w
}

// standaloneDirect executes the request through the internal/cli function itself (not
// through Bulk). "" means: not applicable for this request.
func standaloneDirect(rq *bulkReq, defKey int) (out string) {
	pl, ok := rq.Payload.(map[string]any)
	if !ok || rq.Raw != nil {
		return ""
	}
	data, _ := pl["data"].([]byte)
	if data == nil {
		return ""
	}
	defer func() {
		if r := recover(); r != nil {
			out = ""
		}
	}()
	ctx := context.Background()
	norm := func(v any, err error) string {
		if err != nil {
			ce, ok := err.(*cli.Error)
			if !ok {
				return ""
			}
			b, _ := json.Marshal(ce)
			return normPayload(rq.Action, nil, b)
		}
		b, _ := json.Marshal(v)
		return normPayload(rq.Action, b, nil)
	}
	switch rq.Action {
	case "build":
		env, _ := pl["envelop"].(bool)
		r, err := cli.Build(ctx, &cli.BuildOptions{ParseOptions: &cli.ParseOptions{Input: bytes.NewReader(data), Envelop: env}})
		return norm(r, err)
	case "validate":
		if err := cli.Validate(ctx, bytes.NewReader(data)); err != nil {
			return norm(nil, err)
		}
		return `{"ok":true}`
	case "replicate":
		r, err := cli.Replicate(ctx, &cli.ReplicateOptions{ParseOptions: &cli.ParseOptions{Input: bytes.NewReader(data)}})
		return norm(r, err)
	case "correct":
		if sch, _ := pl["schema"].(bool); sch {
			return ""
		}
		opts, _ := pl["options"].([]byte)
		r, err := cli.Correct(ctx, &cli.CorrectOptions{ParseOptions: &cli.ParseOptions{Input: bytes.NewReader(data)}, Data: opts})
		return norm(r, err)
	}
	return ""
}

type gateWriter struct {
	hdr  http.Header
	w    *SimWriter
	code int
}

func (g *gateWriter) Header() http.Header         { return g.hdr }
func (g *gateWriter) WriteHeader(c int)           { g.code = c }
func (g *gateWriter) Write(p []byte) (int, error) { return g.w.Write(p) }

func execBulk(x *X) {
	t0 := time.Now()
	nstreams := int(x.P.Knob("streams", 1))
	streams := make([]*bulkStream, nstreams)
	for i := range streams {
		streams[i] = &bulkStream{idx: i, style: "cli", expect: map[int64]string{}}
		if x.P.Knob(fmt.Sprintf("http%d", i), 0) == 1 {
			streams[i].style = "http"
		}
	}
	sch := NewSched(x)
	for k, v := range x.P.Knobs {
		if strings.HasPrefix(k, "w:") {
			sch.Weights[k[2:]] = int(v)
		}
	}
	counts := make([]int, nstreams)
	for _, op := range x.P.Ops {
		s := int(op.N)
		switch op.K {
		case "req":
			if s >= nstreams {
				continue
			}
			counts[s]++
			rq := x.buildRequest(op, counts[s])
			streams[s].reqs = append(streams[s].reqs, rq)
		case "tail":
			if s >= nstreams {
				continue
			}
			st := streams[s]
			var raw []byte
			switch op.S {
			case "garbage":
				raw = []byte("this is not json\n")
			case "torn":
				raw = []byte(`{"action":"ping","req_id":"torn`)
			case "array":
				raw = []byte("[1,2,3]\n")
			case "eof-mid-request":
				raw = []byte(`{"action":"build","payload":{"data":"eyJ`)
			}
			st.reqs = append(st.reqs, bulkReq{Raw: raw, Bad: true})
		case "starve":
			sch.Starve[op.S] = int(op.I)
		}
	}
	byOpts := map[*cli.BulkOptions]*bulkStream{}
	maxSteps := 400
	for _, st := range streams {
		for _, rq := range st.reqs {
			if rq.Bad {
				st.decErr = true
				st.input = append(st.input, rq.Raw...)
				break
			}
			st.nOK++
			st.input = append(st.input, rq.line()...)
		}
		st.rd = NewSimReader(x, fmt.Sprintf("s%d/in", st.idx), st.input)
		chunk := int(x.P.Knob(fmt.Sprintf("chunk%d", st.idx), 0))
		if chunk > 0 && len(st.input)/chunk > 6000 {
			// keep the number of delivery steps of one run bounded (tiny chunks over hundreds of
			// kilobytes would cost minutes of wall clock without adding interleavings)
			chunk = len(st.input)/6000 + 1
		}
		if chunk > 0 {
			st.rd.Chunks = []int{chunk}
		}
		st.rd.EOFWithData = (x.P.Run+int64(st.idx))%2 == 0
		name := fmt.Sprintf("s%d/in", st.idx)
		st.rd.Gate = func(r *SimReader) { sch.Yield(name, "delivery", "read", 0) }
		st.opts = &cli.BulkOptions{In: st.rd, DefaultPrivateKey: PrivKey(0)}
		if st.style != "http" && x.P.Knob(fmt.Sprintf("nokey%d", st.idx), 0) == 1 {
			st.defKey = -1
			st.opts.DefaultPrivateKey = nil
			x.Probe("stream-without-default-key")
		}
		byOpts[st.opts] = st
		per := 512
		if chunk > 0 {
			per = chunk
		}
		maxSteps += 2*(len(st.input)/per+2) + 12*(len(st.reqs)+2)
	}
	// the hook: gobl's goroutines park here
	var httpOpts sync.Map // *cli.BulkOptions created inside the HTTP handler -> stream
	cli.SimYield = func(owner any, point string, seq int64) {
		o, _ := owner.(*cli.BulkOptions)
		st := byOpts[o]
		if st == nil {
			if v, ok := httpOpts.Load(o); ok {
				st = v.(*bulkStream)
			} else if o != nil {
				// an HTTP-style stream: identify it by its reader
				for _, cand := range streams {
					if b, ok := o.In.(simBody); ok && b.r == cand.rd {
						st = cand
						httpOpts.Store(o, cand)
					}
				}
			}
		}
		if st == nil {
			return
		}
		switch point {
		case "decode", "drain", "final":
			sch.Yield(fmt.Sprintf("s%d/dec", st.idx), "decoder", point, seq)
		case "work":
			sch.Yield(fmt.Sprintf("s%d/w%04d", st.idx, seq), "worker-start", point, seq)
		case "processed":
			sch.Yield(fmt.Sprintf("s%d/w%04d", st.idx, seq), "worker-send", point, seq)
		}
	}
	defer func() { cli.SimYield = nil }()
	// sleepers and the clock action
	type sleeper struct {
		at   time.Time
		name string
	}
	var sleepers []sleeper
	processed := map[int]int{}
	finalPending := map[int]bool{}
	sch.OnGrant = func(name, class, point string, seq int64) {
		var st *bulkStream
		fmt.Sscanf(name, "s%d/", new(int))
		var si int
		fmt.Sscanf(name, "s%d/", &si)
		if si < len(streams) {
			st = streams[si]
		}
		if st == nil {
			return
		}
		x.Entropy(int(seq) + 1000*si)
		switch point {
		case "work":
			if int(seq) >= 1 && int(seq) <= len(st.reqs) {
				rq := &st.reqs[seq-1]
				// the oracle: the same request executed alone at this very instant
				st.expect[seq] = standalone(rq, st.defKey)
				if d := standaloneDirect(rq, st.defKey); d != "" && d != st.expect[seq] {
					x.Violate("bulk-differs-from-cli-function:"+rq.Action, "stream %d request %d (%s): a one-request bulk stream and the internal/cli function called directly disagree\n  bulk %s\n  cli  %s", si, seq, rq.Action, trunc(st.expect[seq], 300), trunc(d, 300))
				}
				x.Entropy(int(seq) + 1000*si)
				if rq.Action == "sleep" && rq.SleepNS > 0 {
					sleepers = append(sleepers, sleeper{time.Now().Add(time.Duration(rq.SleepNS)), name})
				}
			}
		case "processed":
			if finalPending[si] {
				x.Probe("worker-parked-before-send-while-final-pending")
			}
			processed[si]++
			st.mu.Lock()
			recv := len(st.resp)
			st.mu.Unlock()
			if st.httpOut != nil {
				recv = st.httpOut.Writes
			}
			if processed[si]-recv >= 3 {
				// one response sits in the channel buffer, at least one more worker is blocked on its send
				x.Probe("consumer-lagged-channel-full")
			}
		case "drain":
			finalPending[si] = true
		}
	}
	sch.Env = func() []Action {
		var acts []Action
		for _, st := range streams {
			st := st
			st.mu.Lock()
			open := !st.closed
			st.mu.Unlock()
			if open && !st.cancelled && st.cancel != nil && x.P.Knob(fmt.Sprintf("cancel%d", st.idx), 0) == 1 {
				acts = append(acts, Action{Name: fmt.Sprintf("cancel-s%d", st.idx), Class: "cancel", Do: func() {
					st.cancelled = true
					st.cancel()
					x.Fault("caller-cancelled-mid-stream")
				}})
			}
		}
		if len(sleepers) == 0 {
			return acts
		}
		sort.Slice(sleepers, func(i, j int) bool { return sleepers[i].at.Before(sleepers[j].at) })
		return append(acts, Action{Name: "clock", Class: "clock", Do: func() {
			s := sleepers[0]
			sleepers = sleepers[1:]
			if d := time.Until(s.at); d > 0 {
				time.Sleep(d)
				x.Fault("clock-advance")
				x.Probe("clock-advanced-for-sleep")
			}
		}})
	}
	// start the streams; HTTP-style streams share one server instance, as concurrent requests to a real server do
	httpServer := HTTPHandler(PrivKey(0))
	var wg sync.WaitGroup
	for _, st := range streams {
		st := st
		wg.Add(1)
		st.ctx, st.cancel = context.WithCancel(context.Background())
		defer st.cancel()
		outName := fmt.Sprintf("s%d/out", st.idx)
		if st.style == "http" {
			st.httpOut = NewSimWriter(x, outName)
			st.httpOut.Gate = func(w *SimWriter, p []byte) { sch.Yield(outName, "consumer", "write", 0) }
			go func() {
				defer wg.Done()
				target := "/bulk"
				if x.P.Knob(fmt.Sprintf("indent%d", st.idx), 0) == 1 {
					target = "/bulk?indent=true"
				}
				req := httptest.NewRequest(http.MethodPost, target, nil).WithContext(st.ctx)
				req.Body = simBody{st.rd}
				gw := &gateWriter{hdr: http.Header{}, w: st.httpOut}
				httpServer.ServeHTTP(gw, req)
				st.mu.Lock()
				st.closed = true
				st.mu.Unlock()
			}()
		} else {
			go func() {
				defer wg.Done()
				ch := cli.Bulk(st.ctx, st.opts)
				for {
					sch.Yield(outName, "consumer", "recv", 0)
					res, ok := <-ch
					if !ok {
						break
					}
					st.mu.Lock()
					st.resp = append(st.resp, toWire(res))
					flood := len(st.resp) > 4*(len(st.reqs)+2)
					st.mu.Unlock()
					if flood {
						x.Violate("response-flood", "stream %d produced more than %d responses for %d requests", st.idx, 4*(len(st.reqs)+2), len(st.reqs))
						break
					}
				}
				st.mu.Lock()
				st.closed = true
				st.mu.Unlock()
			}()
		}
	}
	goal := func() bool {
		for _, st := range streams {
			st.mu.Lock()
			c := st.closed
			st.mu.Unlock()
			if !c {
				return false
			}
		}
		return true
	}
	stall := sch.Run(goal, maxSteps)
	if stall != "" {
		var pend []string
		sch.mu.Lock()
		for k, p := range sch.parked {
			pend = append(pend, k+"@"+p.point)
		}
		sch.mu.Unlock()
		sort.Strings(pend)
		x.Violate("no-progress:"+strings.SplitN(stall, " ", 3)[0]+"-"+strings.SplitN(stall, " ", 3)[1], "bulk streams did not complete: %s after %d scheduler steps; parked tasks: %v", stall, sch.Steps, pend)
		// Do not release the parked goroutines: whatever keeps the system from finishing (a
		// decoder that loops, a lost wake-up) would now run unchecked. They stay parked; the
		// end-of-bubble deadlock report is recovered by the runner.
		x.R.SimTimeS = time.Since(t0).Seconds()
		return
	}
	// release everything so that the goroutines can finish and the bubble can end
	sch.Stop()
	for _, st := range streams {
		st.rd.Gate = nil
		if st.httpOut != nil {
			st.httpOut.Gate = nil
		}
		st.rd.Close()
	}
	done := make(chan struct{})
	go func() { wg.Wait(); close(done) }()
	select {
	case <-done:
	case <-time.After(2000 * time.Hour):
		if stall == "" {
			x.Violate("no-progress:goroutines-stuck", "bulk goroutines never finished after all streams were closed")
		}
		x.R.SimTimeS = time.Since(t0).Seconds()
		return
	}
	// ---- oracle over the recorded response streams
	for _, st := range streams {
		x.checkStream(st)
	}
	x.R.Nontrivial = nstreams > 1 || len(streams[0].reqs) > 1
	x.R.SimTimeS = time.Since(t0).Seconds()
}

// simBody is the request body handed to the HTTP handler.
type simBody struct{ r *SimReader }

func (b simBody) Read(p []byte) (int, error) { return b.r.Read(p) }
func (b simBody) Close() error               { return nil }

func (x *X) checkStream(st *bulkStream) {
	resp := st.resp
	if st.style == "http" {
		dec := json.NewDecoder(bytes.NewReader(st.httpOut.Bytes()))
		for {
			var r wireResp
			if err := dec.Decode(&r); err != nil {
				if err.Error() != "EOF" {
					x.Violate("response-stream-not-json", "%d-th response on the HTTP stream does not decode: %v", len(resp)+1, err)
				}
				break
			}
			resp = append(resp, r)
		}
	}
	where := fmt.Sprintf("stream %d (%s-style, %d requests%s)", st.idx, st.style, st.nOK, map[bool]string{true: ", ends in a decode error", false: ""}[st.decErr])
	if st.decErr {
		x.Probe("stream-ended-in-decode-error")
	}
	n := st.nOK
	if st.cancelled {
		// The caller went away. What must still hold: the stream ends, with one final marker, last;
		// nothing is answered twice or under a wrong id; every request the decoder accepted (the
		// final marker's position says how many) is answered. Requests after the cancellation may
		// fail, and the input may be cut short.
		x.Probe("stream-cancelled-by-caller")
		for _, r := range resp {
			if r.IsFinal && r.SeqID >= 1 && r.SeqID <= int64(st.nOK+1) {
				n = int(r.SeqID - 1)
			}
		}
	}
	seen := map[int64]int{}
	finals := 0
	inOrder := true
	var lastSeq int64
	for i, r := range resp {
		if r.IsFinal {
			finals++
			if i != len(resp)-1 {
				x.Violate("final-not-last", "%s: the final marker is response %d of %d; responses followed it", where, i+1, len(resp))
			}
			if r.SeqID != int64(n+1) {
				x.Violate("final-seq", "%s: final marker has seq_id %d, expected %d", where, r.SeqID, n+1)
			}
			if r.hasError() != st.decErr && !st.cancelled {
				x.Violate("final-error", "%s: final marker error=%s but the stream ended in a decode error=%v", where, r.Error, st.decErr)
			}
			continue
		}
		seen[r.SeqID]++
		if r.SeqID < lastSeq {
			inOrder = false
		}
		lastSeq = r.SeqID
		if r.SeqID < 1 || r.SeqID > int64(n) {
			x.Violate("seq-out-of-range", "%s: response with seq_id %d (requests 1..%d)", where, r.SeqID, n)
			continue
		}
		rq := st.reqs[r.SeqID-1]
		if r.ReqID != rq.ReqID {
			x.Violate("req-id-mismatch", "%s: response seq_id %d carries req_id %q, request %d had %q", where, r.SeqID, r.ReqID, r.SeqID, rq.ReqID)
		}
		got := normPayload(rq.Action, r.Payload, r.Error)
		want, ok := st.expect[r.SeqID]
		if !ok && st.cancelled && r.hasError() {
			// refused without being run because the caller had gone: it was answered, once, with an error
			x.Probe("request-refused-after-cancellation")
		} else if !ok {
			x.Violate("response-without-execution", "%s: response for seq_id %d although its worker was never started", where, r.SeqID)
		} else if got != want && st.cancelled && r.hasError() {
			x.Probe("request-failed-after-cancellation")
		} else if got != want {
			x.Violate("payload-differs:"+rq.Action, "%s: request %d (%s %s) payload differs from the standalone execution at the same instant\n  got  %s\n  want %s", where, r.SeqID, rq.Action, rq.ReqID, trunc(got, 400), trunc(want, 400))
		}
	}
	if !inOrder {
		x.Probe("responses-out-of-arrival-order")
	}
	for _, r := range resp {
		if r.IsFinal || r.SeqID < 1 || r.SeqID > int64(n) {
			continue
		}
		rq := st.reqs[r.SeqID-1]
		// a signature produced inside a stream must be by the key the request named, else by the stream's default key
		if rq.Action == "sign" && !r.hasError() {
			if env, err := ParseEnv(r.Payload); err == nil && len(env.Signatures) > 0 {
				want := st.defKey
				if pl, ok := rq.Payload.(map[string]any); ok {
					if raw, ok := pl["privatekey"].(json.RawMessage); ok {
						for i := range keyJWK {
							if string(raw) == PrivKeyJSON(i) {
								want = i
							}
						}
					}
				}
				if want < 0 {
					x.Violate("sign-without-any-key", "%s: request %d (sign) named no key and the stream has none, yet a signed envelope came back", where, r.SeqID)
				} else if err := env.Verify(PubKey(want)); err != nil {
					x.Violate("sign-wrong-key", "%s: request %d (sign) was to be signed by pool key %d but the returned envelope does not verify with it: %v", where, r.SeqID, want, err)
				}
			}
		}
		// the indent flag belongs to its own request (checked where the payload reaches us unre-encoded)
		if r.rawMulti != nil && !r.hasError() && len(r.Payload) > 0 && rq.Action != "schema" && rq.Action != "regime" {
			tp := bytes.TrimSpace(r.Payload)
			multi := *r.rawMulti
			structured := len(tp) > 2 && (tp[0] == '{' || tp[0] == '[') // scalars, null, {} and [] look the same either way
			if structured && multi != rq.Indent {
				x.Violate("indent-flag-mispaired", "%s: request %d (%s) had indent=%v but its payload is %s", where, r.SeqID, rq.Action, rq.Indent, map[bool]string{true: "indented", false: "compact"}[multi])
			}
		}
	}
	for s := int64(1); s <= int64(n); s++ {
		switch seen[s] {
		case 1:
		case 0:
			x.Violate("response-missing", "%s: request %d (%s) never received a response; got %d responses", where, s, st.reqs[s-1].Action, len(resp))
		default:
			x.Violate("response-duplicated", "%s: request %d received %d responses", where, s, seen[s])
		}
	}
	if finals != 1 {
		x.Violate(fmt.Sprintf("final-count-%d", finals), "%s: %d final markers in %d responses", where, finals, len(resp))
	}
	x.R.Evals += int64(len(resp))
}
