package verifsim

import (
	"bufio"
	"bytes"
	"encoding/json"
	"fmt"
	"os"
	"os/exec"
	"path/filepath"
	"regexp"
	"runtime"
	"sort"
	"strconv"
	"strings"
	"sync"
	"sync/atomic"
	"testing"
	"testing/synctest"
	"time"
)

// Ctx is the per-process context of the harness.
type Ctx struct {
	Tier    string
	Seed    int64
	Repo    string // tree under test
	Dir     string // /verif
	Corpus  *Corpus
	Workers int
	Race    bool // this binary was built with -race
}

// CheckDef is one sub-check (a world + oracle) of a property.
type CheckDef struct {
	Name       string
	Bubble     bool // run each plan inside a synctest bubble (fake clock)
	NeedsRace  bool // free-running monitor, only meaningful in the -race binary
	NumRuns    func(c *Ctx) int64
	Plan       func(c *Ctx, run int64) *Plan
	Exec       func(x *X)
	Exhaustive func(c *Ctx) bool
	// CrashIsViolation: a child process dying while executing a plan of this
	// check is itself a violation of the property (C14, C15).
	CrashIsViolation bool
	HangIsViolation  bool
	// NoShrinkOps keeps ops as they are when minimising (only sched/knobs shrink).
	NoShrink bool
	// FreshProcess: a violation permanently changes process state, so every
	// candidate of the minimiser (and the replay) needs its own process.
	FreshProcess bool
	// CrossProcess: for the plans it selects, the run is executed a second time by another OS
	// process (other hash seeds, other package initialisation order of maps) and everything the
	// check handed to X.Output must be byte-identical.
	CrossProcess func(p *Plan) bool
}

// PropDef describes one claimed property.
type PropDef struct {
	ID          string
	Level       string
	Rule        string
	Assumptions []string
	Checks      []*CheckDef
	// RequiredProbes must be > 0 in a thorough run or the run is infra-failed.
	RequiredProbes []string
}

var props = map[string]*PropDef{}

func register(p *PropDef) { props[p.ID] = p }

func (p *PropDef) check(name string) *CheckDef {
	for _, c := range p.Checks {
		if c.Name == name {
			return c
		}
	}
	return nil
}

// X is the execution context of one plan.
type X struct {
	T       *testing.T
	C       *Ctx
	P       *Plan
	R       *Result
	Log     *Log
	Def     *CheckDef
	step    int
	caseSet map[string]bool
	mu      sync.Mutex
	// faultClass qualifies panic signatures with the kind of damage being applied (C14).
	faultClass string
	// rawPresent, when set, is what the byte-based entry points are given instead of the
	// Go serialisation of the envelope (a content-preserving re-encoding of it)
	rawPresent []byte
}

// Violate records a violation.
func (x *X) Violate(sig, format string, a ...any) {
	x.mu.Lock()
	defer x.mu.Unlock()
	if len(x.R.Violations) >= 50 {
		return
	}
	x.R.Violations = append(x.R.Violations, Violation{
		Prop: x.P.Prop, Check: x.P.Check, Sig: sig, Detail: trunc(fmt.Sprintf(format, a...), 1500), Step: x.step,
	})
}

// Fault counts a fault that actually fired.
func (x *X) Fault(kind string) {
	x.mu.Lock()
	defer x.mu.Unlock()
	if x.R.Faults == nil {
		x.R.Faults = map[string]int64{}
	}
	x.R.Faults[kind]++
	x.R.Nontrivial = true
}

// Probe counts a rare condition reached.
func (x *X) Probe(name string) {
	x.mu.Lock()
	defer x.mu.Unlock()
	if x.R.Probes == nil {
		x.R.Probes = map[string]int64{}
	}
	x.R.Probes[name]++
}

// State records an abstract model state visited.
func (x *X) State(s string) {
	for _, o := range x.R.States {
		if o == s {
			return
		}
	}
	if len(x.R.States) < 256 {
		x.R.States = append(x.R.States, s)
	}
}

// Case records a distinct non-trivial case evaluated inside this run.
func (x *X) Case(id string) {
	x.R.Evals++
	if x.caseSet == nil {
		x.caseSet = map[string]bool{}
	}
	if !x.caseSet[id] {
		x.caseSet[id] = true
		x.R.Cases = append(x.R.Cases, id)
	}
}

// Eval counts one evaluation that is not by itself a distinct case.
func (x *X) Eval() { x.R.Evals++ }

// Step marks the beginning of a step (op) and logs it.
func (x *X) Step(i int, task, point, detail string) {
	x.step = i
	x.R.Steps++
	x.Log.Event(i, x.vnow(), task, point, detail)
}

func trunc(s string, n int) string {
	if len(s) > n {
		return s[:n] + "…"
	}
	return s
}

// RunPlan executes one plan in this process.
func RunPlan(t *testing.T, c *Ctx, p *Plan) (res *Result) {
	pd := props[p.Prop]
	res = &Result{Run: p.Run, Shape: p.Shape()}
	if pd == nil {
		res.Infra = "unknown property " + p.Prop
		return
	}
	def := pd.check(p.Check)
	if def == nil {
		res.Infra = "unknown check " + p.Check
		return
	}
	x := &X{T: t, C: c, P: p, R: res, Log: &Log{Keep: os.Getenv("VERIF_KEEPLOG") != ""}, Def: def}
	body := func(tt *testing.T) {
		x.T = tt
		defer func() {
			if r := recover(); r != nil {
				buf := make([]byte, 8192)
				buf = buf[:runtime.Stack(buf, false)]
				res.Infra = fmt.Sprintf("harness panic: %v\n%s", r, buf)
			}
		}()
		resetGlobalState(tt, p)
		def.Exec(x)
	}
	if def.Bubble {
		func() {
			defer func() {
				if r := recover(); r != nil {
					// end-of-bubble deadlock or similar: report as infra unless the
					// check already noted a no-progress violation.
					if res.Infra == "" && len(res.Violations) == 0 {
						res.Infra = fmt.Sprintf("bubble panic: %v", r)
					}
				}
			}()
			synctest.Test(t, body)
		}()
	} else {
		body(t)
	}
	res.Trace = x.Log.Hash()
	res.SchedHash = x.Log.SchedHash()
	if res.Evals == 0 {
		res.Evals = 1
	}
	if os.Getenv("VERIF_KEEPLOG") != "" {
		for _, l := range x.Log.Lines() {
			fmt.Fprintln(os.Stderr, "EV", l)
		}
	}
	return
}

func envOr(k, d string) string {
	if v := os.Getenv(k); v != "" {
		return v
	}
	return d
}

// Main is the entry point called from the test shim.
func Main(t *testing.T, race bool) {
	c := &Ctx{
		Tier: envOr("VERIF_TIER", "quick"),
		Repo: envOr("VERIF_REPO", "/repo"),
		Dir:  envOr("VERIF_DIR", "/verif"),
		Race: race,
	}
	if c.Tier != "quick" && c.Tier != "thorough" {
		c.Tier = "quick"
	}
	c.Seed, _ = strconv.ParseInt(envOr("VERIF_SEED", "1"), 10, 64)
	c.Workers, _ = strconv.Atoi(envOr("VERIF_WORKERS", strconv.Itoa(runtime.NumCPU())))
	if c.Workers < 1 {
		c.Workers = 1
	}
	mode := envOr("VERIF_MODE", "parent")
	code := 2
	switch mode {
	case "child":
		code = childMain(t, c)
	case "server":
		code = serverMain(t, c)
	case "replay":
		code = replayMain(t, c, os.Getenv("VERIF_REPLAY"))
	case "parent":
		code = parentMain(c)
	case "cold":
		code = coldMain(c)
	case "list":
		for _, id := range SortedKeys(props) {
			fmt.Println(id)
		}
		code = 0
	}
	CleanupScratch()
	os.Stdout.Sync()
	os.Exit(code)
}

type unit struct {
	Check string
	Run   int64
}

func units(c *Ctx, pd *PropDef) []unit {
	var us []unit
	only := os.Getenv("VERIF_ONLY_CHECK")
	for _, d := range pd.Checks {
		if only != "" && d.Name != only {
			continue
		}
		if d.NeedsRace != c.Race {
			continue
		}
		n := d.NumRuns(c)
		for i := int64(0); i < n; i++ {
			us = append(us, unit{d.Name, i})
		}
	}
	return us
}

const outPrefix = "@@"

func emit(kind string, v any) {
	b, _ := json.Marshal(v)
	fmt.Fprintf(os.Stdout, "%s%s %s\n", outPrefix, kind, b)
}

func loadCtx(c *Ctx) error {
	var err error
	c.Corpus, err = LoadCorpus(c.Repo)
	return err
}

// childMain executes the units of one slice.
func childMain(t *testing.T, c *Ctx) int {
	pd := props[os.Getenv("VERIF_PROP")]
	if pd == nil {
		fmt.Fprintln(os.Stderr, "unknown property")
		return 2
	}
	if err := loadCtx(c); err != nil {
		fmt.Fprintln(os.Stderr, "corpus:", err)
		return 2
	}
	var k, w, from int
	fmt.Sscanf(os.Getenv("VERIF_SLICE"), "%d/%d/%d", &k, &w, &from)
	us := units(c, pd)
	emit("HELLO", map[string]any{"units": len(us), "corpus": len(c.Corpus.Docs)})
	for i := from; i < len(us); i++ {
		if i%w != k {
			continue
		}
		u := us[i]
		def := pd.check(u.Check)
		fmt.Fprintf(os.Stdout, "%sRUN %d\n", outPrefix, i)
		p := def.Plan(c, u.Run)
		r := RunPlan(t, c, p)
		crossProcess(t, c, def, p, r, 1)
		// determinism recheck on a sample of runs
		if r.Infra == "" && !def.NeedsRace && (i+int(c.Seed))%16 == 0 {
			r2 := RunPlan(t, c, def.Plan(c, u.Run))
			if r2.Trace != r.Trace || len(r2.Violations) != len(r.Violations) {
				r.Infra = fmt.Sprintf("simulator nondeterminism: run %s/%d trace %s vs %s", u.Check, u.Run, r.Trace, r2.Trace)
			}
			if r.Probes == nil {
				r.Probes = map[string]int64{}
			}
			r.Probes["_determinism_rechecks"]++
		}
		r.Run = int64(i)
		r.Slice = fmt.Sprintf("%d/%d/%d", k, w, from)
		emit("RES", r)
		if stop := os.Getenv("VERIF_STOP_AFTER"); stop != "" && stop == strconv.Itoa(i) {
			break
		}
	}
	closePeers()
	fmt.Fprintf(os.Stdout, "%sDONE\n", outPrefix)
	return 0
}

// serverMain executes plans read from stdin (one JSON per line); used by the
// minimiser and replay verification so that a crashing plan only kills the server.
func serverMain(t *testing.T, c *Ctx) int {
	if err := loadCtx(c); err != nil {
		fmt.Fprintln(os.Stderr, "corpus:", err)
		return 2
	}
	emit("READY", 1)
	sc := bufio.NewScanner(os.Stdin)
	sc.Buffer(make([]byte, 1<<20), 1<<28)
	for sc.Scan() {
		var p Plan
		if err := json.Unmarshal(sc.Bytes(), &p); err != nil {
			emit("RES", &Result{Infra: "bad plan: " + err.Error()})
			continue
		}
		r := RunPlan(t, c, &p)
		if pd := props[p.Prop]; pd != nil {
			if def := pd.check(p.Check); def != nil {
				// several fresh peers: a replay or a shrinking step should not miss the difference
				crossProcess(t, c, def, &p, r, 4)
			}
		}
		emit("RES", r)
	}
	closePeers()
	return 0
}

// ReplayFile is the on-disk form of a minimised failing run.
type ReplayFile struct {
	Property  string `json:"property"`
	Check     string `json:"check"`
	Signature string `json:"signature"`
	Detail    string `json:"detail"`
	Seed      int64  `json:"seed"`
	Run       int64  `json:"run"`
	Plan      *Plan  `json:"plan"`
	Trace     string `json:"trace"`
	GoVersion string `json:"go_version"`
	Repo      string `json:"repo_rev"`
	Crash     bool   `json:"crash,omitempty"`
	Original  int    `json:"original_ops"`
	Minimised int    `json:"minimised_ops"`
	Note      string `json:"note,omitempty"`
	// HistorySlice: the violation only shows after the runs a child process executed before it
	// (state carried over between runs inside the code under test): "k/w/from" and the unit.
	HistorySlice string `json:"history_slice,omitempty"`
	HistoryUnit  int    `json:"history_unit,omitempty"`
}

func replayMain(t *testing.T, c *Ctx, path string) int {
	b, err := os.ReadFile(path)
	if err != nil {
		fmt.Fprintln(os.Stderr, err)
		return 2
	}
	var rf ReplayFile
	if err := json.Unmarshal(b, &rf); err != nil {
		fmt.Fprintln(os.Stderr, err)
		return 2
	}
	if rf.HistorySlice != "" {
		if err := loadCtx(c); err != nil {
			fmt.Fprintln(os.Stderr, err)
			return 2
		}
		pd := props[rf.Property]
		if pd != nil && historyReproduces(c, pd, rf.HistorySlice, rf.HistoryUnit, rf.Signature) {
			fmt.Printf("replay: reproduced %s by re-executing child slice %s up to unit %d (the violation depends on state carried over from earlier operations)\n", rf.Signature, rf.HistorySlice, rf.HistoryUnit)
			fmt.Printf("VIOLATION property=%s replay=%s\n", rf.Property, path)
			return 1
		}
		fmt.Println("replay: no violation (property holds on this history)")
		return 0
	}
	srv := newServer(c, rf.Plan.Prop)
	defer srv.close()
	r, crashed, tail := srv.exec(rf.Plan, 180*time.Second)
	if crashed {
		fmt.Printf("replay: process aborted while executing the plan\n%s\n", tail)
		if rf.Crash {
			fmt.Printf("VIOLATION property=%s replay=%s\n", rf.Property, path)
			return 1
		}
		return 2
	}
	if r.Infra != "" {
		fmt.Println("replay: infrastructure trouble:", r.Infra)
		return 2
	}
	for _, v := range r.Violations {
		if v.Sig == rf.Signature {
			fmt.Printf("replay: reproduced %s: %s\n", v.Sig, v.Detail)
			fmt.Printf("VIOLATION property=%s replay=%s\n", rf.Property, path)
			return 1
		}
	}
	if len(r.Violations) > 0 {
		fmt.Printf("replay: a different violation occurred: %s: %s\n", r.Violations[0].Sig, r.Violations[0].Detail)
		fmt.Printf("VIOLATION property=%s replay=%s\n", rf.Property, path)
		return 1
	}
	fmt.Println("replay: no violation (property holds on this plan)")
	return 0
}

// historyReproduces re-executes a child slice up to a unit and reports whether the
// signature shows up at that unit again.
func historyReproduces(c *Ctx, pd *PropDef, slice string, unit int, sig string) bool {
	cmd := selfCmd(c, "child", pd.ID, "VERIF_SLICE="+slice, "VERIF_STOP_AFTER="+strconv.Itoa(unit))
	out, err := cmd.StdoutPipe()
	if err != nil {
		return false
	}
	cmd.Stderr = &tailBuf{}
	if err := cmd.Start(); err != nil {
		return false
	}
	found := false
	sc := bufio.NewScanner(out)
	sc.Buffer(make([]byte, 1<<20), 1<<28)
	for sc.Scan() {
		line := sc.Text()
		if !strings.HasPrefix(line, outPrefix+"RES ") {
			continue
		}
		var r Result
		if json.Unmarshal([]byte(line[len(outPrefix)+4:]), &r) != nil {
			continue
		}
		if int(r.Run) == unit {
			for _, v := range r.Violations {
				if v.Sig == sig {
					found = true
				}
			}
		}
	}
	cmd.Wait()
	return found
}

// ---------------------------------------------------------------------------
// plan server client

type server struct {
	c    *Ctx
	prop string
	cmd  *exec.Cmd
	in   *bufio.Writer
	inC  interface{ Close() error }
	out  *bufio.Scanner
	errb *tailBuf
	env  []string
}

type tailBuf struct {
	mu sync.Mutex
	b  []byte
}

func (t *tailBuf) Write(p []byte) (int, error) {
	t.mu.Lock()
	defer t.mu.Unlock()
	t.b = append(t.b, p...)
	if len(t.b) > 16384 {
		t.b = t.b[len(t.b)-16384:]
	}
	return len(p), nil
}
func (t *tailBuf) String() string { t.mu.Lock(); defer t.mu.Unlock(); return string(t.b) }

func selfCmd(c *Ctx, mode, prop string, extra ...string) *exec.Cmd {
	cmd := exec.Command(os.Args[0], "-test.run", "^TestVerif$", "-test.timeout", "0")
	cmd.Env = append(os.Environ(),
		"VERIF_MODE="+mode, "VERIF_PROP="+prop,
		"VERIF_TIER="+c.Tier, "VERIF_SEED="+strconv.FormatInt(c.Seed, 10),
		"VERIF_REPO="+c.Repo, "VERIF_DIR="+c.Dir,
	)
	cmd.Env = append(cmd.Env, extra...)
	return cmd
}

func newServer(c *Ctx, prop string) *server {
	return &server{c: c, prop: prop}
}

func (s *server) start() error {
	s.cmd = selfCmd(s.c, "server", s.prop, s.env...)
	in, err := s.cmd.StdinPipe()
	if err != nil {
		return err
	}
	out, err := s.cmd.StdoutPipe()
	if err != nil {
		return err
	}
	s.errb = &tailBuf{}
	s.cmd.Stderr = s.errb
	if err := s.cmd.Start(); err != nil {
		return err
	}
	s.in = bufio.NewWriter(in)
	s.inC = in
	s.out = bufio.NewScanner(out)
	s.out.Buffer(make([]byte, 1<<20), 1<<28)
	for s.out.Scan() {
		if strings.HasPrefix(s.out.Text(), outPrefix+"READY") {
			return nil
		}
	}
	return fmt.Errorf("server did not start: %s", s.errb.String())
}

func (s *server) close() {
	if s.cmd != nil {
		s.inC.Close()
		done := make(chan struct{})
		go func() { s.cmd.Wait(); close(done) }()
		select {
		case <-done:
		case <-time.After(5 * time.Second):
			s.cmd.Process.Kill()
		}
		s.cmd = nil
	}
}

// exec runs one plan; crashed is true when the server process died or hung.
func (s *server) exec(p *Plan, timeout time.Duration) (r *Result, crashed bool, tail string) {
	if s.cmd == nil {
		if err := s.start(); err != nil {
			return &Result{Infra: err.Error()}, false, ""
		}
	}
	b, _ := json.Marshal(p)
	s.in.Write(b)
	s.in.WriteByte('\n')
	s.in.Flush()
	type rr struct {
		r  *Result
		ok bool
	}
	ch := make(chan rr, 1)
	go func() {
		for s.out.Scan() {
			line := s.out.Text()
			if strings.HasPrefix(line, outPrefix+"RES ") {
				var r Result
				if err := json.Unmarshal([]byte(line[len(outPrefix)+4:]), &r); err != nil {
					ch <- rr{&Result{Infra: "bad result: " + err.Error()}, true}
					return
				}
				ch <- rr{&r, true}
				return
			}
		}
		ch <- rr{nil, false}
	}()
	select {
	case x := <-ch:
		if !x.ok {
			s.cmd.Wait()
			tail = s.errb.String()
			s.cmd = nil
			return nil, true, tail
		}
		return x.r, false, ""
	case <-time.After(timeout):
		s.cmd.Process.Kill()
		s.cmd.Wait()
		tail = "TIMEOUT after " + timeout.String() + "\n" + s.errb.String()
		s.cmd = nil
		return nil, true, tail
	}
}

// ---------------------------------------------------------------------------
// parent

type finding struct {
	Property string `json:"property"`
	Status   string `json:"status"` // open | fixed
	SigRegex string `json:"sig_regex"`
	What     string `json:"what"`
	Commit   string `json:"commit,omitempty"`
	re       *regexp.Regexp
}

func loadFindings(dir string) ([]*finding, error) {
	b, err := os.ReadFile(filepath.Join(dir, "known_findings.json"))
	if err != nil {
		if os.IsNotExist(err) {
			return nil, nil
		}
		return nil, err
	}
	var f struct {
		Findings []*finding `json:"findings"`
	}
	if err := json.Unmarshal(b, &f); err != nil {
		return nil, err
	}
	for _, x := range f.Findings {
		x.re, err = regexp.Compile(x.SigRegex)
		if err != nil {
			return nil, err
		}
	}
	return f.Findings, nil
}

type agg struct {
	evals      int64
	runs       int64
	faults     Counter
	probes     Counter
	shapes     map[string]bool
	scheds     map[string]bool
	traces     map[string]bool
	states     map[string]bool
	cases      map[string]bool
	nontrivial map[string]bool
	simtime    float64
	steps      int64
	viol       map[string]*violRec // by sig
	violOrder  []string
	infra      []string
	perCheck   map[string]int64
	cutShort   bool // stopped early after many hangs
}

type violRec struct {
	v      Violation
	unit   int
	count  int
	crash  bool
	tail   string
	replan *Plan
	slice  string
}

func parentMain(c *Ctx) int {
	start := time.Now()
	prop := os.Getenv("VERIF_PROP")
	pd := props[prop]
	if pd == nil {
		fmt.Fprintln(os.Stderr, "unknown property", prop)
		return 2
	}
	if err := loadCtx(c); err != nil {
		fmt.Fprintln(os.Stderr, "corpus:", err)
		return 2
	}
	findings, err := loadFindings(c.Dir)
	if err != nil {
		fmt.Fprintln(os.Stderr, "known_findings.json:", err)
		return 2
	}
	us := units(c, pd)
	fmt.Printf("VERIF property=%s tier=%s seed=%d units=%d workers=%d race=%v repo=%s go=%s\n",
		prop, c.Tier, c.Seed, len(us), c.Workers, c.Race, c.Repo, runtime.Version())
	if len(us) == 0 {
		fmt.Println("no units for this binary")
		return 0
	}
	a := &agg{faults: Counter{}, probes: Counter{}, shapes: map[string]bool{}, scheds: map[string]bool{},
		traces: map[string]bool{}, states: map[string]bool{}, cases: map[string]bool{}, nontrivial: map[string]bool{},
		viol: map[string]*violRec{}, perCheck: map[string]int64{}}
	var mu sync.Mutex
	var wg sync.WaitGroup
	w := c.Workers
	if w > len(us) {
		w = len(us)
	}
	hangLimit := 300 * time.Second
	if v := os.Getenv("VERIF_HANG_S"); v != "" {
		n, _ := strconv.Atoi(v)
		hangLimit = time.Duration(n) * time.Second
	}
	// The first hang is waited for in full. Once a hang is on record the run has failed anyway:
	// further hanging units are given up on sooner (halved each time, never below 20 s), and
	// after 24 of them the workers stop starting new children.
	var hangNS atomic.Int64
	hangNS.Store(int64(hangLimit))
	var hangs atomic.Int64
	deadline := time.Time{}
	if v := os.Getenv("VERIF_BUDGET_S"); v != "" {
		n, _ := strconv.Atoi(v)
		deadline = start.Add(time.Duration(n) * time.Second)
	}
	for k := 0; k < w; k++ {
		wg.Add(1)
		go func(k int) {
			defer wg.Done()
			from := 0
			restarts := 0
			for {
				if hangs.Load() >= 24 {
					mu.Lock()
					a.cutShort = true
					mu.Unlock()
					return
				}
				last, done, tail, hung := runChild(c, pd, us, k, w, from, a, &mu, &hangNS, deadline)
				if done {
					return
				}
				if hung {
					hangs.Add(1)
					if n := hangNS.Load() / 2; n >= int64(20*time.Second) {
						hangNS.Store(n)
					} else {
						hangNS.Store(int64(20 * time.Second))
					}
				}
				// the child died while executing unit `last`
				mu.Lock()
				if last >= 0 {
					u := us[last]
					def := pd.check(u.Check)
					kind := "process-abort"
					isV := def.CrashIsViolation
					if hung {
						kind = "hang"
						isV = def.HangIsViolation
					}
					sig := kind + ":" + crashSite(tail)
					if isV {
						if _, ok := a.viol[sig]; !ok {
							a.viol[sig] = &violRec{v: Violation{Prop: pd.ID, Check: u.Check, Sig: sig, Detail: trunc(tail, 3000)}, unit: last, crash: true, tail: tail}
							a.violOrder = append(a.violOrder, sig)
						}
						a.viol[sig].count++
					} else {
						a.infra = append(a.infra, fmt.Sprintf("child %s on unit %d (%s/%d): %s", kind, last, u.Check, u.Run, trunc(tail, 2000)))
					}
				} else {
					a.infra = append(a.infra, "child failed before first unit: "+trunc(tail, 2000))
				}
				mu.Unlock()
				restarts++
				if last < 0 || restarts > 200 {
					return
				}
				from = last + 1
			}
		}(k)
	}
	wg.Wait()
	wall := time.Since(start).Seconds()

	// ---------------- violations: minimise, write replay, verify, classify
	code := 0
	nViol := 0
	var lines []string
	srv := newServer(c, pd.ID)
	defer srv.close()
	maxReport := 6
	if os.Getenv("VERIF_LIST_SIGS") != "" {
		for _, sig := range a.violOrder {
			vr := a.viol[sig]
			fmt.Printf("SIG %s\t%d\t%s\n", sig, vr.count, strings.ReplaceAll(trunc(vr.v.Detail, 400), "\n", " | "))
		}
	}
	reported := 0
	for _, sig := range a.violOrder {
		vr := a.viol[sig]
		u := us[vr.unit]
		def := pd.check(u.Check)
		plan := def.Plan(c, u.Run)
		if vr.replan != nil {
			plan = vr.replan
			if d2 := pd.check(plan.Check); d2 != nil {
				def = d2
			}
		}
		var kf *finding
		for _, f := range findings {
			if f.Property == pd.ID && f.Status == "open" && f.re.MatchString(sig) {
				kf = f
			}
		}
		if kf != nil {
			lines = append(lines, fmt.Sprintf("KNOWN-FINDING: property=%s %s [sig=%s, %d occurrence(s)]", pd.ID, kf.What, sig, vr.count))
			continue
		}
		nViol++
		reported++
		if reported > maxReport {
			// still a violation (exit 1), but not minimised
			lines = append(lines, fmt.Sprintf("VIOLATION property=%s replay=(not minimised) sig=%s: %s", pd.ID, sig, strings.ReplaceAll(trunc(vr.v.Detail, 300), "\n", " | ")))
			code = 1
			continue
		}
		rf := minimise(c, srv, def, plan, vr)
		path := filepath.Join(c.Dir, "replays", pd.ID, fmt.Sprintf("%s-%d-%d-%s.json", u.Check, c.Seed, u.Run, HS(sig)[:6]))
		os.MkdirAll(filepath.Dir(path), 0o755)
		b, _ := json.MarshalIndent(rf, "", " ")
		os.WriteFile(path, b, 0o644)
		// verify in a fresh process
		vs := newServer(c, pd.ID)
		r, crashed, _ := vs.exec(rf.Plan, 300*time.Second)
		vs.close()
		ok := false
		if vr.crash {
			ok = crashed
		} else if !crashed && r != nil {
			for _, v := range r.Violations {
				if v.Sig == sig {
					ok = true
				}
			}
		}
		if !ok && !def.NeedsRace && vr.slice != "" {
			// Not a function of its plan alone. Either the harness is at fault, or the code under
			// test carries state from one operation to the next (a polluted shared definition, a
			// cache): re-execute exactly what that child process executed, up to the failing unit.
			if historyReproduces(c, pd, vr.slice, vr.unit, sig) {
				rf.HistorySlice, rf.HistoryUnit = vr.slice, vr.unit
				rf.Plan = def.Plan(c, u.Run)
				if vr.replan != nil {
					rf.Plan = vr.replan
				}
				rf.Note = "does not reproduce from the plan alone in a fresh process; reproduces when the runs the same process executed before it are executed first (state is carried between operations inside the code under test). Replay re-executes that slice."
				b, _ := json.MarshalIndent(rf, "", " ")
				os.WriteFile(path, b, 0o644)
				ok = true
			}
		}
		if !ok && !def.NeedsRace {
			a.infra = append(a.infra, fmt.Sprintf("violation %s (unit %s/%d) did not reproduce from its replay file %s", sig, u.Check, u.Run, path))
			nViol--
			continue
		}
		fmt.Printf("violation: %s/%s sig=%s\n  %s\n  minimised %d -> %d ops\n", pd.ID, u.Check, sig, strings.ReplaceAll(trunc(vr.v.Detail, 1200), "\n", "\n  "), rf.Original, rf.Minimised)
		lines = append(lines, fmt.Sprintf("VIOLATION property=%s replay=%s", pd.ID, path))
		code = 1
	}
	// ---------------- evidence
	if err := writeEvidence(c, pd, a, len(us), wall, nViol); err != nil {
		a.infra = append(a.infra, "evidence: "+err.Error())
	}
	if c.Tier == "thorough" && code == 0 && !c.Race && os.Getenv("VERIF_ONLY_CHECK") == "" {
		for _, p := range pd.RequiredProbes {
			if a.probes[p] == 0 {
				a.infra = append(a.infra, "required probe never hit: "+p)
			}
		}
	}
	for _, l := range lines {
		fmt.Println(l)
	}
	if a.cutShort {
		fmt.Println("NOTE: the run was cut short after 24 units hung; the units not executed are not covered by this result")
	}
	fmt.Printf("SUMMARY property=%s tier=%s runs=%d evals=%d distinct_cases=%d distinct_traces=%d distinct_schedules=%d faults=%v wall=%.1fs violations=%d\n",
		pd.ID, c.Tier, a.runs, a.evals, len(a.cases)+len(a.nontrivial), len(a.traces), len(a.scheds), a.faults, wall, nViol)
	if len(a.infra) > 0 {
		for _, s := range a.infra {
			fmt.Println("INFRA:", s)
		}
		if code == 0 {
			return 2
		}
	}
	return code
}

// rssMB reads a process' resident set size.
func rssMB(pid int) int {
	b, err := os.ReadFile(fmt.Sprintf("/proc/%d/statm", pid))
	if err != nil {
		return 0
	}
	f := strings.Fields(string(b))
	if len(f) < 2 {
		return 0
	}
	pages, _ := strconv.Atoi(f[1])
	return pages * os.Getpagesize() / (1 << 20)
}

var reSite = regexp.MustCompile(`(?m)^\s+(/[^\s]+\.go):(\d+)`)
var rePanic = regexp.MustCompile(`(?m)^(panic: .*|fatal error: .*|WARNING: DATA RACE)$`)

// crashSite extracts a stable site from a Go crash dump: the panic message
// class and the first frame inside the repository.
func crashSite(tail string) string {
	msg := ""
	if m := rePanic.FindString(tail); m != "" {
		msg = m
		if i := strings.Index(msg, " [recovered]"); i > 0 {
			msg = msg[:i]
		}
		if len(msg) > 80 {
			msg = msg[:80]
		}
	}
	if strings.HasPrefix(tail, "TIMEOUT") {
		msg = "timeout"
	}
	site := ""
	for _, m := range reSite.FindAllStringSubmatch(tail, -1) {
		f := m[1]
		if strings.Contains(f, "/verifsim/") || strings.Contains(f, "/verif/") || strings.Contains(f, "/src/runtime/") || strings.Contains(f, "/opt/veriftools/") {
			continue
		}
		if i := strings.Index(f, "/pkg/mod/"); i >= 0 {
			continue
		}
		site = filepath.Base(filepath.Dir(f)) + "/" + filepath.Base(f)
		break
	}
	return msg + "@" + site
}

func runChild(c *Ctx, pd *PropDef, us []unit, k, w, from int, a *agg, mu *sync.Mutex, hangNS *atomic.Int64, deadline time.Time) (last int, done bool, tail string, hung bool) {
	last = -1
	cmd := selfCmd(c, "child", pd.ID, fmt.Sprintf("VERIF_SLICE=%d/%d/%d", k, w, from))
	out, err := cmd.StdoutPipe()
	if err != nil {
		return -1, false, err.Error(), false
	}
	errb := &tailBuf{}
	cmd.Stderr = errb
	if err := cmd.Start(); err != nil {
		return -1, false, err.Error(), false
	}
	var lastMu sync.Mutex
	lastAt := time.Now()
	stop := make(chan struct{})
	var hungFlag, budgetFlag bool
	memFlag := 0
	maxRSS := 6000
	if v := os.Getenv("VERIF_MAX_RSS_MB"); v != "" {
		maxRSS, _ = strconv.Atoi(v)
	}
	go func() {
		tk := time.NewTicker(2 * time.Second)
		defer tk.Stop()
		for {
			select {
			case <-stop:
				return
			case <-tk.C:
				lastMu.Lock()
				idle := time.Since(lastAt)
				lastMu.Unlock()
				if idle > time.Duration(hangNS.Load()) {
					hungFlag = true
					cmd.Process.Kill()
					return
				}
				if rss := rssMB(cmd.Process.Pid); rss > maxRSS {
					hungFlag = true
					memFlag = rss
					cmd.Process.Kill()
					return
				}
				if !deadline.IsZero() && time.Now().After(deadline) {
					budgetFlag = true
					cmd.Process.Kill()
					return
				}
			}
		}
	}()
	sc := bufio.NewScanner(out)
	sc.Buffer(make([]byte, 1<<20), 1<<28)
	sawDone := false
	var stdoutTail tailBuf
	for sc.Scan() {
		line := sc.Text()
		if !strings.HasPrefix(line, outPrefix) {
			stdoutTail.Write([]byte(line + "\n"))
			continue
		}
		line = line[len(outPrefix):]
		switch {
		case strings.HasPrefix(line, "RUN "):
			n, _ := strconv.Atoi(line[4:])
			lastMu.Lock()
			last = n
			lastAt = time.Now()
			lastMu.Unlock()
		case strings.HasPrefix(line, "RES "):
			var r Result
			if err := json.Unmarshal([]byte(line[4:]), &r); err != nil {
				mu.Lock()
				a.infra = append(a.infra, "bad RES line: "+err.Error())
				mu.Unlock()
				continue
			}
			mu.Lock()
			a.merge(pd, us, &r)
			mu.Unlock()
			lastMu.Lock()
			lastAt = time.Now()
			lastMu.Unlock()
		case strings.HasPrefix(line, "DONE"):
			sawDone = true
		}
	}
	close(stop)
	cmd.Wait()
	if sawDone || budgetFlag {
		return last, true, "", false
	}
	tail = errb.String()
	if strings.TrimSpace(tail) == "" {
		tail = stdoutTail.String()
	} else {
		tail = tail + "\n" + stdoutTail.String()
	}
	if hungFlag && memFlag > 0 {
		tail = fmt.Sprintf("TIMEOUT: memory runaway, resident set %d MB while executing one plan\n", memFlag) + tail
	} else if hungFlag {
		tail = "TIMEOUT: no progress for " + time.Duration(hangNS.Load()).String() + "\n" + tail
	}
	return last, false, tail, hungFlag
}

func (a *agg) merge(pd *PropDef, us []unit, r *Result) {
	a.runs++
	a.evals += r.Evals
	a.steps += int64(r.Steps)
	a.faults.Add(r.Faults)
	a.probes.Add(r.Probes)
	a.shapes[r.Shape] = true
	a.traces[r.Trace] = true
	if r.SchedHash != "" && r.SchedHash != "0000000000000000" {
		a.scheds[r.SchedHash] = true
	}
	for _, s := range r.States {
		a.states[s] = true
	}
	for _, s := range r.Cases {
		if len(a.cases) < 3_000_000 {
			a.cases[s] = true
		}
	}
	if r.Nontrivial && len(r.Cases) == 0 {
		a.nontrivial[r.Shape+"/"+r.SchedHash+"/"+r.Trace] = true
	}
	a.simtime += r.SimTimeS
	if int(r.Run) < len(us) {
		a.perCheck[us[r.Run].Check]++
	}
	if r.Infra != "" {
		if len(a.infra) < 20 {
			a.infra = append(a.infra, fmt.Sprintf("unit %d: %s", r.Run, r.Infra))
		}
	}
	for _, v := range r.Violations {
		vr, ok := a.viol[v.Sig]
		if !ok {
			vr = &violRec{v: v, unit: int(r.Run), replan: r.Replan, slice: r.Slice}
			a.viol[v.Sig] = vr
			a.violOrder = append(a.violOrder, v.Sig)
		}
		vr.count++
		if int(r.Run) < vr.unit {
			vr.unit = int(r.Run)
			vr.v = v
			vr.replan = r.Replan
			vr.slice = r.Slice
		}
	}
}

// minimise shrinks the plan by delta debugging while the same signature recurs.
func minimise(c *Ctx, srv *server, def *CheckDef, plan *Plan, vr *violRec) *ReplayFile {
	sig := vr.v.Sig
	rf := &ReplayFile{Property: plan.Prop, Check: plan.Check, Signature: sig, Detail: vr.v.Detail,
		Seed: plan.Seed, Run: plan.Run, GoVersion: runtime.Version(), Repo: repoRev(c.Repo), Crash: vr.crash,
		Original: len(plan.Ops)}
	budget := 300
	deadline := time.Now().Add(45 * time.Second)
	fails := func(p *Plan) bool {
		if budget <= 0 || time.Now().After(deadline) {
			return false
		}
		budget--
		if def.FreshProcess {
			srv.close()
		}
		r, crashed, tail := srv.exec(p, 90*time.Second)
		if vr.crash {
			return crashed && ("process-abort:"+crashSite(tail) == sig || "hang:"+crashSite(tail) == sig)
		}
		if crashed || r == nil {
			return false
		}
		for _, v := range r.Violations {
			if v.Sig == sig {
				return true
			}
		}
		return false
	}
	cur := clonePlan(plan)
	if def.NeedsRace {
		rf.Plan = cur
		rf.Minimised = len(cur.Ops)
		rf.Note = "race-detector monitor: replay is probabilistic (re-runs the workload until the detector reports again)"
		return rf
	}
	if !fails(cur) {
		// could not even reproduce in the server; keep the original plan
		rf.Plan = cur
		rf.Minimised = len(cur.Ops)
		rf.Note = "not reproduced by the minimiser's first execution; plan left as generated"
		return rf
	}
	if !def.NoShrink {
		// ddmin over ops
		n := 2
		for len(cur.Ops) >= 2 && budget > 0 {
			chunk := (len(cur.Ops) + n - 1) / n
			reduced := false
			for i := 0; i < len(cur.Ops); i += chunk {
				j := i + chunk
				if j > len(cur.Ops) {
					j = len(cur.Ops)
				}
				cand := clonePlan(cur)
				cand.Ops = append(append([]Op{}, cur.Ops[:i]...), cur.Ops[j:]...)
				if fails(cand) {
					cur = cand
					if n > 2 {
						n--
					}
					reduced = true
					break
				}
			}
			if !reduced {
				if chunk <= 1 {
					break
				}
				n *= 2
				if n > len(cur.Ops) {
					n = len(cur.Ops)
				}
			}
		}
	}
	// schedule: truncate, then zero entries
	for len(cur.Sched) > 0 && budget > 0 {
		cand := clonePlan(cur)
		cand.Sched = cand.Sched[:len(cand.Sched)/2]
		if fails(cand) {
			cur = cand
		} else {
			break
		}
	}
	for i := range cur.Sched {
		if budget <= 0 {
			break
		}
		if cur.Sched[i] != 0 {
			cand := clonePlan(cur)
			cand.Sched[i] = 0
			if fails(cand) {
				cur = cand
			}
		}
	}
	// knobs: try dropping each (falls back to defaults)
	for _, k := range SortedKeys(cur.Knobs) {
		if budget <= 0 {
			break
		}
		cand := clonePlan(cur)
		delete(cand.Knobs, k)
		if fails(cand) {
			cur = cand
		}
	}
	rf.Plan = cur
	rf.Minimised = len(cur.Ops)
	return rf
}

func clonePlan(p *Plan) *Plan {
	b, _ := json.Marshal(p)
	var q Plan
	json.Unmarshal(b, &q)
	return &q
}

func repoRev(repo string) string {
	out, _ := exec.Command("git", "-C", repo, "rev-parse", "--short", "HEAD").Output()
	d, _ := exec.Command("git", "-C", repo, "diff", "HEAD").Output()
	s := strings.TrimSpace(string(out))
	if len(bytes.TrimSpace(d)) > 0 {
		s += "+dirty:" + H(d)
	}
	return s
}

func writeEvidence(c *Ctx, pd *PropDef, a *agg, nUnits int, wall float64, nViol int) error {
	distinct := len(a.cases) + len(a.nontrivial)
	// samples: a few plans as executed
	var samples []any
	us := units(c, pd)
	seen := map[string]bool{}
	for _, u := range us {
		if seen[u.Check] {
			continue
		}
		seen[u.Check] = true
		d := pd.check(u.Check)
		n := d.NumRuns(c)
		for _, i := range []int64{0, n / 2} {
			if i < n {
				p := d.Plan(c, i)
				b, _ := json.Marshal(p)
				if len(b) > 3000 {
					q := clonePlan(p)
					if len(q.Ops) > 8 {
						q.Ops = q.Ops[:8]
					}
					if len(q.Sched) > 32 {
						q.Sched = q.Sched[:32]
					}
					samples = append(samples, map[string]any{"truncated": true, "ops_total": len(p.Ops), "plan": q})
				} else {
					samples = append(samples, p)
				}
			}
		}
	}
	exh := true
	for _, d := range pd.Checks {
		if d.Exhaustive == nil || !d.Exhaustive(c) {
			exh = false
		}
	}
	perHour := 0.0
	if wall > 0 {
		perHour = float64(a.runs) / wall * 3600
	}
	probes := map[string]int64{}
	for k, v := range a.probes {
		probes[k] = v
	}
	cov := map[string]any{
		"evaluations":          a.evals,
		"distinct_nontrivial":  distinct,
		"rule":                 pd.Rule,
		"samples":              samples,
		"exhaustive":           exh,
		"simulated_runs":       a.runs,
		"runs_per_hour":        int64(perHour),
		"seeds":                []int64{c.Seed},
		"seeds_per_hour":       fmt.Sprintf("one seed (%d) expands to %d runs; %.0f runs/hour", c.Seed, a.runs, perHour),
		"sim_time_covered_s":   a.simtime,
		"steps":                a.steps,
		"faults_fired":         map[string]int64(a.faults),
		"probes":               probes,
		"distinct_traces":      len(a.traces),
		"distinct_schedules":   len(a.scheds),
		"distinct_plan_shapes": len(a.shapes),
		"model_states_visited": len(a.states),
		"runs_per_check":       a.perCheck,
		"determinism_rechecks": a.probes["_determinism_rechecks"],
		"components": map[string]any{
			"real": []string{"gobl library (all packages of the tree under test)", "internal/cli (Bulk, Build, Sign, Verify, Validate, Correct, Replicate)", "internal/iotools", "cmd/gobl HTTP handlers and cobra commands", "go-jose, yaml, mergo, echo binder"},
			"stub": []string{"byte streams (SimReader/SimWriter)", "context cancellation source", "clock (testing/synctest fake clock)", "entropy (testing/cryptotest deterministic crypto/rand)", "HTTP transport (httptest recorder, no sockets)", "durable storage (in-memory byte store)"},
		},
		"units_planned": nUnits,
		"go_version":    runtime.Version(),
		"repo_rev":      repoRev(c.Repo),
	}
	ev := map[string]any{
		"property_id": pd.ID,
		"tier":        c.Tier,
		"seed":        c.Seed,
		"level":       pd.Level,
		"coverage":    cov,
		"assumptions": append([]string{
			"gobl compiled by " + runtime.Version() + " behaves as under its pinned go1.23 toolchain",
			"Go map iteration order is sampled by repetition, not controlled",
			"a clean batch of sampled runs is evidence, not proof",
		}, pd.Assumptions...),
		"wall_s":     wall,
		"violations": nViol,
	}
	// the race binary and the plain binary both contribute to one file: the deterministic
	// part stays on top, the monitor's coverage is nested under "monitor_part"
	path := filepath.Join(c.Dir, "evidence", pd.ID+".json")
	if os.Getenv("VERIF_EVIDENCE_MERGE") != "" {
		if old, err := os.ReadFile(path); err == nil {
			var o map[string]any
			if json.Unmarshal(old, &o) == nil {
				if oc, ok := o["coverage"].(map[string]any); ok {
					oc["monitor_part"] = cov
					oc["monitor_note"] = "race-detector monitor (free-running goroutines, not deterministic): counts below 'monitor_part' are its own; evaluations and distinct_nontrivial on top are the sums"
					if v, ok := oc["evaluations"].(float64); ok {
						oc["evaluations"] = a.evals + int64(v)
					}
					if v, ok := oc["distinct_nontrivial"].(float64); ok {
						oc["distinct_nontrivial"] = distinct + int(v)
					}
					if sm, ok := oc["samples"].([]any); ok {
						oc["samples"] = append(sm, samples...)
					}
					if v, ok := o["wall_s"].(float64); ok {
						o["wall_s"] = wall + v
					}
					if v, ok := o["violations"].(float64); ok {
						o["violations"] = nViol + int(v)
					}
					ev = o
				}
			}
		}
	}
	b, err := json.MarshalIndent(ev, "", " ")
	if err != nil {
		return err
	}
	os.MkdirAll(filepath.Dir(path), 0o755)
	return os.WriteFile(path, b, 0o644)
}

var _ = sort.Strings

// ---------------------------------------------------------------------------
// cross-process comparison

var (
	peerMu   sync.Mutex
	peerList []*server
	peerUses int
)

func closePeers() {
	peerMu.Lock()
	defer peerMu.Unlock()
	for _, p := range peerList {
		p.close()
	}
	peerList = nil
}

// crossProcess executes the plan again in n other OS processes and compares the
// outputs the check recorded. What differs between processes and cannot be put
// behind a seam is the runtime's hash seed and with it the order in which maps
// built during package initialisation were filled and are walked.
func crossProcess(t *testing.T, c *Ctx, def *CheckDef, p *Plan, r *Result, n int) {
	if def.CrossProcess == nil || os.Getenv("VERIF_NO_PEER") != "" || r.Infra != "" || len(r.Violations) > 0 || len(r.Outputs) == 0 || !def.CrossProcess(p) {
		return
	}
	peerMu.Lock()
	defer peerMu.Unlock()
	if n == 1 {
		// one long-lived peer per child process, replaced now and then for variety
		peerUses++
		if peerUses%40 == 0 {
			for _, q := range peerList {
				q.close()
			}
			peerList = nil
		}
	}
	for len(peerList) < n {
		peerList = append(peerList, &server{c: c, prop: p.Prop, env: []string{"VERIF_NO_PEER=1"}})
	}
	for i := 0; i < n; i++ {
		peer := peerList[i]
		r2, crashed, tail := peer.exec(p, 120*time.Second)
		if crashed || r2 == nil {
			r.Infra = "peer process died executing a plan that ran here: " + trunc(tail, 1500)
			return
		}
		if r2.Infra != "" {
			r.Infra = "peer process: " + r2.Infra
			return
		}
		if r.Faults == nil {
			r.Faults = map[string]int64{}
		}
		r.Faults["other-process"]++
		diff := -1
		for k := range r.Outputs {
			if k >= len(r2.Outputs) || r.Outputs[k] != r2.Outputs[k] {
				diff = k
				break
			}
		}
		if diff < 0 && len(r2.Outputs) == len(r.Outputs) {
			continue
		}
		// fetch the bytes of both sides
		pd := clonePlan(p)
		if pd.Knobs == nil {
			pd.Knobs = map[string]int64{}
		}
		pd.Knobs["dump"] = 1
		mine := RunPlan(t, c, pd)
		theirs, crashed2, _ := peer.exec(pd, 120*time.Second)
		label := "?"
		if diff >= 0 && diff < len(r.Outputs) {
			label = strings.SplitN(r.Outputs[diff], "=", 2)[0]
		}
		sig, detail := "process-dependent:"+label, fmt.Sprintf("output %q of the same history differs between two processes", label)
		if !crashed2 && theirs != nil && mine.Dump != nil && theirs.Dump != nil {
			a, b := []byte(mine.Dump[label]), []byte(theirs.Dump[label])
			if len(a) > 0 && len(b) > 0 {
				sig = "process-dependent:" + GDiff(a, b)
				detail = fmt.Sprintf("the same history, executed by two processes, gives different bytes at step %q; %s", label, DiffDetail(a, b))
			}
		}
		r.Violations = append(r.Violations, Violation{Prop: p.Prop, Check: p.Check, Sig: sig, Detail: detail})
		return
	}
}
