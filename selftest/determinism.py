#!/usr/bin/env python3
"""Determinism self-test: every simulated run must be a pure function of (seed, run index, code).
For each property a slice of units is executed in many fresh processes spread over GOMAXPROCS 1/4/16;
all per-unit trace hashes (and violation counts) must be identical; and a unit's trace must not depend on
which other units the same process executed before it (the slice is re-run as two interleaved sub-slices). Exit 0 = deterministic, 2 = divergence.
usage: selftest/determinism.py [reps=30] [units=40] [props...]"""
import json, os, subprocess, sys, hashlib, collections
reps = int(sys.argv[1]) if len(sys.argv) > 1 else 30
units = int(sys.argv[2]) if len(sys.argv) > 2 else 40
props = sys.argv[3:] or ["C04", "C07", "C08", "C09", "C10", "C12", "C14", "C15", "C16"]
vdir = os.path.dirname(os.path.dirname(os.path.abspath(__file__)))
repo = os.environ.get("VERIF_REPO", "/repo")
subprocess.run([os.path.join(vdir, "check"), "build"], check=True, stdout=subprocess.DEVNULL)
key = hashlib.sha256(repo.encode()).hexdigest()[:10]
binp = os.path.join(vdir, ".build", key, "sim.test")
bad = 0
summary = {}
for prop in props:
    for seed in (1, 7):
        env = dict(os.environ, VERIF_MODE="child", VERIF_PROP=prop, VERIF_REPO=repo, VERIF_DIR=vdir,
                   VERIF_SEED=str(seed), VERIF_TIER="quick", VERIF_SCRATCH=os.path.join(vdir, ".build", key, "scratch.selftest"))
        os.makedirs(env["VERIF_SCRATCH"], exist_ok=True)
        # learn the unit count
        out = subprocess.run([binp, "-test.run", "^TestVerif$", "-test.timeout", "0"], env=dict(env, VERIF_SLICE="0/1000000/0"),
                             cwd=os.path.join(repo, "cmd/gobl"), capture_output=True, text=True).stdout
        n = 0
        for l in out.splitlines():
            if l.startswith("@@HELLO"):
                n = json.loads(l[8:])["units"]
        if n == 0:
            continue
        w = max(1, n // units)
        import tempfile
        procs, running = [], []
        for r in range(reps):
            e = dict(env, VERIF_SLICE=f"0/{w}/0", GOMAXPROCS=str([1, 4, 16][r % 3]), VERIF_NO_PEER="1")
            tf = tempfile.TemporaryFile(mode="w+", dir=env["VERIF_SCRATCH"])
            pr = subprocess.Popen([binp, "-test.run", "^TestVerif$", "-test.timeout", "0"], env=e,
                                  cwd=os.path.join(repo, "cmd/gobl"), stdout=tf, stderr=subprocess.DEVNULL, text=True)
            procs.append((pr, tf))
            running.append(pr)
            while len(running) >= 16:
                running.pop(0).wait()
        results = []
        for pr, tf in procs:
            pr.wait()
            tf.seek(0)
            o = tf.read()
            tf.close()
            rec = {}
            for l in o.splitlines():
                if l.startswith("@@RES "):
                    j = json.loads(l[6:])
                    rec[j["run"]] = (j["trace"], j.get("sched", ""), len(j.get("violations") or []), j.get("infra", ""), tuple(j.get("outputs") or ()))
            results.append(rec)
        ref = results[0]
        div = collections.Counter()
        for rec in results[1:]:
            for k in ref:
                if rec.get(k) != ref[k]:
                    div[k] += 1
        # history independence: the same units executed with different predecessors in the process
        # (two interleaved sub-slices instead of one slice) must produce the same traces
        for sub in (f"0/{2*w}/0", f"{w}/{2*w}/0"):
            e = dict(env, VERIF_SLICE=sub, GOMAXPROCS="4", VERIF_NO_PEER="1")
            o = subprocess.run([binp, "-test.run", "^TestVerif$", "-test.timeout", "0"], env=e,
                               cwd=os.path.join(repo, "cmd/gobl"), capture_output=True, text=True).stdout
            for l in o.splitlines():
                if l.startswith("@@RES "):
                    j = json.loads(l[6:])
                    got = (j["trace"], j.get("sched", ""), len(j.get("violations") or []), j.get("infra", ""), tuple(j.get("outputs") or ()))
                    if j["run"] in ref and ref[j["run"]] != got:
                        div[("history", j["run"])] += 1
        infra = [v[3] for v in ref.values() if v[3]]
        summary[f"{prop}/seed{seed}"] = {"units": len(ref), "processes": len(results), "diverging_units": len(div), "infra": infra[:2]}
        status = "ok" if not div and not infra else "DIVERGENCE"
        print(f"{prop} seed={seed}: {len(ref)} units × {len(results)} processes (GOMAXPROCS 1/4/16): {status} {dict(div) if div else ''} {infra[:1]}")
        if div or infra:
            bad += 1
json.dump(summary, open(os.path.join(vdir, "selftest", "determinism.last.json"), "w"), indent=1)
sys.exit(2 if bad else 0)
