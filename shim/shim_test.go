//go:build verif

package main

// This file is compiled into cmd/gobl's test binary through `go test -overlay`
// (see /verif/check). It only adapts the unexported entry points of package
// main (HTTP handlers, cobra commands) to the simulation harness.

import (
	"context"
	"encoding/json"
	"io"
	"net/http"
	"testing"

	"github.com/labstack/echo/v4"

	"github.com/invopop/gobl/dsig"
	"github.com/invopop/gobl/internal/verifsim"
)

func verifHTTP(key *dsig.PrivateKey) http.Handler {
	s := serve()
	s.privateKey = key
	e := echo.New()
	e.HideBanner = true
	e.GET("/", s.version)
	e.POST("/build", s.build)
	e.POST("/verify", s.verify)
	e.POST("/key", s.keygen)
	e.POST("/bulk", s.bulk)
	return e
}

func verifCobra(ctx context.Context, args []string, in io.Reader, out, errOut io.Writer) error {
	cmd := root().cmd()
	cmd.SetArgs(args)
	cmd.SetIn(in)
	cmd.SetOut(out)
	cmd.SetErr(errOut)
	err := cmd.ExecuteContext(ctx)
	if err != nil {
		// what main.printError does, on the writer we own
		enc := json.NewEncoder(errOut)
		enc.SetIndent("", "\t")
		if e2 := enc.Encode(err); e2 != nil {
			_, _ = io.WriteString(errOut, e2.Error()+"\n")
		}
	}
	return err
}

func TestVerif(t *testing.T) {
	verifsim.HTTPHandler = verifHTTP
	verifsim.Cobra = verifCobra
	verifsim.Main(t, verifsim.RaceEnabled)
}
