#!/usr/bin/env python3
"""usage: tools/recordseeded.py <sa_dir> <agent> <k> <round> <at_hand:yes|no> <tier> <history…>
Files a confirmed sub-agent change under seeded/<Cxx-n>/ from <sa_dir>/<agent>.out/<k>/ and the
seedeval log /var/tmp/se_<agent>_<k>.log (the last evaluation: detection signatures are read from it)."""
import json, os, re, shutil, sys, glob
sa, agent, k, rnd, athand, tier = sys.argv[1:7]
history = ' '.join(sys.argv[7:])
src = f'{sa}/{agent}.out/{k}'
notes = open(f'{src}/notes.md').read()
prop = re.search(r'C\d\d', notes.split('\n')[0]).group(0)
nums = [int(os.path.basename(d).split('-')[1]) for d in glob.glob(f'/verif/seeded/{prop}-*')]
sid = f'{prop}-{max(nums or [0]) + 1}'
log = open(f'/var/tmp/se_{agent}_{k}.log', errors='replace').read()
conf = {
    'applies_and_compiles': 'PATCH DOES NOT APPLY' not in log and 'DOES NOT COMPILE' not in log,
    'existing_suite_passes': 'suite-exit=0' in log or 'suite-rerun-exit=0' in log,
    'demo_passes_without_patch': bool(re.search(r'must pass\)\n(.*\n)*?ok ', log)),
    'demo_fails_with_patch': bool(re.search(r'must fail\)\n(.*\n)*?FAIL', log)),
}
sigs = []
for m in re.finditer(r'^violation: (\S+) sig=(.*)$', log, re.M):
    e = {'check': m.group(1), 'signature': m.group(2).strip()[:160]}
    if e not in sigs:
        sigs.append(e)
for m in re.finditer(r'^VIOLATION property=\S+ replay=\(not minimised\) sig=([^ ]+?):? ', log, re.M):
    e = {'check': prop, 'signature': m.group(1)[:160]}
    if e not in sigs:
        sigs.append(e)
detected = 'check-exit=1' in log
os.makedirs(f'/verif/seeded/{sid}')
for f in ('patch.diff', 'demo_test.go', 'notes.md'):
    shutil.copy(f'{src}/{f}', f'/verif/seeded/{sid}/{f}')
first = [l for l in notes.split('\n')[1:] if l.strip() and not l.startswith('#')]
meta = {
    'id': sid, 'property': prop, 'round': int(rnd),
    'needs_to_manifest': ' '.join(first[:3])[:400],
    'confirmed': conf,
    'what_i_ran': [f'SA_DIR={sa} tools/seedeval.sh {agent} {k} {tier} (scratch worktree: demo without patch, git apply, go build ./..., demo with patch, go test -vet=off -count=1 ./..., VERIF_REPO=<worktree> ./check {prop} {tier})'],
    'detected_by': sigs[:6], 'tier': tier, 'detected': detected,
    'caught_by_version_at_hand': athand == 'yes',
    'history': history,
}
json.dump(meta, open(f'/verif/seeded/{sid}/meta.json', 'w'), indent=1, ensure_ascii=False)
print(sid, conf, detected, len(sigs))
