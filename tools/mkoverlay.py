#!/usr/bin/env python3
"""Emit the go-build overlay that compiles the harness into the tree under test.
usage: mkoverlay.py <repo> <verifdir> <builddir>
Nothing is written into <repo>."""
import json, os, re, subprocess, sys
repo, vdir, bdir = sys.argv[1:4]
rep = {}
for f in sorted(os.listdir(os.path.join(vdir, "sim"))):
    if f.endswith(".go"):
        rep[os.path.join(repo, "internal/verifsim", f)] = os.path.join(vdir, "sim", f)
rep[os.path.join(repo, "cmd/gobl/zz_verif_shim_test.go")] = os.path.join(vdir, "shim/shim_test.go")
rep[os.path.join(repo, "internal/verifroots/roots.go")] = os.path.join(vdir, "roots/roots.go")
# generated package-level roots for the shared-state fingerprint
rootsdir = os.path.join(bdir, "roots")
if os.path.isdir(rootsdir):
    for f in sorted(os.listdir(rootsdir)):
        if f.endswith(".map"):
            target = open(os.path.join(rootsdir, f)).read().strip()
            rep[target] = os.path.join(rootsdir, f[:-4] + ".go")
json.dump({"Replace": rep}, sys.stdout, indent=1)
