#!/bin/bash
# usage: tools/scratch.sh <file_test.go> [pkgdir relative to repo, default .] [-run regex]
# Compiles a throw-away _test.go file into a package of the tree under test via -overlay. Nothing is written to the repo.
export GOFLAGS=-mod=mod GOPROXY=off GOSUMDB=off GOTOOLCHAIN=local
REPO="${VERIF_REPO:-/repo}"
F="$(cd "$(dirname "$1")" && pwd)/$(basename "$1")"; PKG="${2:-.}"
OV=$(mktemp /var/tmp/ov.XXXXXX.json)
echo "{\"Replace\":{\"$REPO/$PKG/zz_scratch_test.go\":\"$F\"}}" > $OV
cd $REPO && go1.26.8 test -count=1 -vet=off -overlay $OV -run "${3:-TestScratch}" -v ./$PKG 2>&1 | grep -v "^=== RUN\|^--- PASS\|^PASS\|^ok "
rm -f $OV
