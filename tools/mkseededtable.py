#!/usr/bin/env python3
"""Print the DESIGN.md §13 table rows for one round from seeded/*/meta.json: tools/mkseededtable.py <round>"""
import json, glob, sys, re
rnd = int(sys.argv[1])
rows = []
for f in glob.glob('/verif/seeded/C*/meta.json'):
    m = json.load(open(f))
    if m.get('round') != rnd:
        continue
    at_hand = m.get('caught_by_version_at_hand')
    if at_hand is None:
        at_hand = 'missed by the version at hand' not in m.get('history', '')
    if not m.get('detected', True):
        key = (m['property'], int(m['id'].split('-')[1]))
        rows.append((key, '| %s | %s | — | — | **not caught** (by design, see meta.json) |' % (m['id'], m['needs_to_manifest'][:200])))
        continue
    checks = '; '.join(dict.fromkeys(d['check'] for d in m['detected_by']))
    tier = '' if m.get('tier', 'quick') == 'quick' else ' (%s)' % m['tier']
    key = (m['property'], int(m['id'].split('-')[1]))
    rows.append((key, '| %s | %s | %s%s | `%s` | %s |' % (m['id'], m['needs_to_manifest'][:200], checks, tier,
               m['detected_by'][0]['signature'][:60], 'yes' if at_hand else 'no — see meta.json')))
print('| id | needs | caught by | first signature | caught by the version at hand? |')
print('|---|---|---|---|---|')
for _, r in sorted(rows):
    print(r)
