#!/bin/bash
# usage: tools/benigneval.sh <patch.diff> — apply a behaviour-preserving change to a scratch worktree and run every quick check; all must exit 0.
set -u
export GOFLAGS=-mod=mod GOPROXY=off GOSUMDB=off
PATCH="$(cd "$(dirname "$1")" && pwd)/$(basename "$1")"
W=$(mktemp -d /var/tmp/ben.XXXXXX)
git -C /repo worktree add -q --detach "$W" HEAD || exit 2
cleanup() { git -C /repo worktree remove --force "$W" 2>/dev/null; KEY=$(printf '%s' "$W" | sha256sum | cut -c1-10); rm -rf "/verif/.build/$KEY"; }
trap cleanup EXIT
git -C "$W" apply "$PATCH" 2>/dev/null || git -C "$W" apply --3way "$PATCH" || { echo "PATCH DOES NOT APPLY"; exit 2; }
(cd "$W" && go build ./...) || { echo "DOES NOT COMPILE"; exit 2; }
rc_all=0
for p in C04 C07 C08 C09 C10 C12 C14 C15 C16; do
  out=$(VERIF_REPO="$W" VERIF_WORKERS=${VERIF_WORKERS:-8} timeout 3000 /verif/check $p quick 2>&1); rc=$?
  echo "$p exit=$rc $(echo "$out" | grep -c '^KNOWN') known"
  if [ $rc -ne 0 ]; then rc_all=1; echo "$out" | grep -v "^KNOWN" | grep "^violation\|^VIOLATION\|^INFRA\|BUILD" -A3 | cut -c1-400 | head -30; fi
done
echo "BENIGN RESULT rc=$rc_all patch=$1"
exit $rc_all
