// genroots lists every package-level variable of every non-test Go file of every
// package of the tree under test and emits, per package, a file that registers
// the variables' addresses with internal/verifroots. The files are added to the
// build through -overlay only; nothing is written into the tree.
//
// usage: genroots <repo> <outdir>
package main

import (
	"bufio"
	"fmt"
	"go/ast"
	"go/parser"
	"go/token"
	"os"
	"path/filepath"
	"sort"
	"strings"
)

func main() {
	repo, out := os.Args[1], os.Args[2]
	os.RemoveAll(out)
	os.MkdirAll(out, 0o755)
	mod := modulePath(filepath.Join(repo, "go.mod"))
	type pkg struct {
		name string
		vars []string
	}
	pkgs := map[string]*pkg{}
	filepath.Walk(repo, func(path string, info os.FileInfo, err error) error {
		if err != nil {
			return nil
		}
		rel, _ := filepath.Rel(repo, path)
		if info.IsDir() {
			base := info.Name()
			if rel != "." && (strings.HasPrefix(base, ".") || base == "wasm" || base == "examples" || base == "testdata" || base == "node_modules" || base == "build") {
				return filepath.SkipDir
			}
			if rel == "cmd" || rel == "internal/verifsim" || rel == "internal/verifroots" {
				return filepath.SkipDir
			}
			return nil
		}
		if !strings.HasSuffix(path, ".go") || strings.HasSuffix(path, "_test.go") || strings.HasPrefix(info.Name(), "zz_verif") {
			return nil
		}
		if skipByConstraint(path) {
			return nil
		}
		fset := token.NewFileSet()
		f, err := parser.ParseFile(fset, path, nil, parser.SkipObjectResolution)
		if err != nil {
			return nil
		}
		if f.Name.Name == "main" {
			return nil
		}
		dir := filepath.Dir(rel)
		p := pkgs[dir]
		if p == nil {
			p = &pkg{name: f.Name.Name}
			pkgs[dir] = p
		}
		for _, d := range f.Decls {
			gd, ok := d.(*ast.GenDecl)
			if !ok || gd.Tok != token.VAR {
				continue
			}
			for _, s := range gd.Specs {
				vs := s.(*ast.ValueSpec)
				for _, n := range vs.Names {
					if n.Name != "_" {
						p.vars = append(p.vars, n.Name)
					}
				}
			}
		}
		return nil
	})
	dirs := make([]string, 0, len(pkgs))
	for d := range pkgs {
		dirs = append(dirs, d)
	}
	sort.Strings(dirs)
	total := 0
	for _, d := range dirs {
		p := pkgs[d]
		if len(p.vars) == 0 {
			continue
		}
		sort.Strings(p.vars)
		imp := mod
		if d != "." {
			imp = mod + "/" + filepath.ToSlash(d)
		}
		var b strings.Builder
		fmt.Fprintf(&b, "//go:build verif\n\npackage %s\n\nimport verifroots \"%s/internal/verifroots\"\n\nfunc init() {\n\tverifroots.Register(%q, []verifroots.Root{\n", p.name, mod, imp)
		for _, v := range p.vars {
			fmt.Fprintf(&b, "\t\t{Name: %q, Ptr: &%s},\n", v, v)
			total++
		}
		b.WriteString("\t})\n}\n")
		base := strings.ReplaceAll(filepath.ToSlash(d), "/", "__")
		if d == "." {
			base = "_root"
		}
		os.WriteFile(filepath.Join(out, base+".go"), []byte(b.String()), 0o644)
		os.WriteFile(filepath.Join(out, base+".map"), []byte(filepath.Join(repo, d, "zz_verif_roots.go")), 0o644)
	}
	fmt.Fprintf(os.Stderr, "genroots: %d packages, %d package-level variables\n", len(dirs), total)
}

func modulePath(gomod string) string {
	f, err := os.Open(gomod)
	if err != nil {
		return ""
	}
	defer f.Close()
	sc := bufio.NewScanner(f)
	for sc.Scan() {
		if strings.HasPrefix(sc.Text(), "module ") {
			return strings.TrimSpace(strings.TrimPrefix(sc.Text(), "module "))
		}
	}
	return ""
}

// skipByConstraint skips files guarded by build constraints that this build does not satisfy
// (mage, ignore, js/wasm) and the harness' own verif-tagged hook files, whose variables are
// legitimately written by the simulator.
func skipByConstraint(path string) bool {
	f, err := os.Open(path)
	if err != nil {
		return true
	}
	defer f.Close()
	sc := bufio.NewScanner(f)
	for i := 0; sc.Scan() && i < 30; i++ {
		l := strings.TrimSpace(sc.Text())
		if strings.HasPrefix(l, "package ") {
			break
		}
		if strings.HasPrefix(l, "//go:build") || strings.HasPrefix(l, "// +build") {
			for _, t := range []string{"mage", "ignore", "js", "wasm", "verif", "tools"} {
				if strings.Contains(l, t) {
					return true
				}
			}
		}
	}
	return false
}
