module genroots

go 1.23
