#!/bin/bash
# usage: tools/mutant.sh <patch.diff> <ID> [quick|thorough] [extra env...]
# VERIF_CHECK_DIR=<copy of /verif> runs that copy's check instead (to try changes to the machinery without touching /verif).
# Applies a patch to a scratch worktree of /repo under /var/tmp, runs ./check <ID> against it, removes the worktree.
set -u
PATCH="$(cd "$(dirname "$1")" && pwd)/$(basename "$1")"; ID="$2"; TIER="${3:-quick}"
W=$(mktemp -d /var/tmp/mut.XXXXXX)
git -C /repo worktree add -q --detach "$W" HEAD || exit 2
if ! git -C "$W" apply "$PATCH"; then echo "PATCH DOES NOT APPLY"; git -C /repo worktree remove --force "$W"; exit 2; fi
KEY=$(printf '%s' "$W" | sha256sum | cut -c1-10)
V="${VERIF_CHECK_DIR:-/verif}"
VERIF_REPO="$W" timeout 3600 "$V/check" "$ID" "$TIER"; rc=$?
echo "MUTANT RESULT rc=$rc patch=$1 id=$ID"
git -C /repo worktree remove --force "$W"; rm -rf "$V/.build/$KEY" /verif/replays/*/*.json.mut 2>/dev/null
exit $rc
