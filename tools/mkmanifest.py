#!/usr/bin/env python3
"""Regenerate /verif/MANIFEST.json from the table below (kept in one place so it stays valid)."""
import json, subprocess
claimed = {
 "C04": ("exploration", "§5 C04",
   "Seeded deterministic-simulation search over envelope histories that start from the source document as a user wrote it (the first calculation happens inside the run; business edits incl. unusual-but-legal spellings, mixed rate keys, breakdowns, discounts, advances, replaced addons, and the conditions of every published scenario of the document's regime and addons (type, tags, extension codes on lines); header entries; calculate via library and via cli.Build over a faulty-but-benign simulated stream, persist / crash-restart / lost write / re-encoding of the durable bytes, fake-clock jumps up to decades, entropy reseeds, read-only operations, k-fold repetition). Oracles: calculate on a calculated envelope is the byte identity across any number of restarts and clock positions; parse∘serialise is the identity on every byte string the system produced; read-only operations leave the bytes unchanged; identifiers and dates never change once set; a sample of the histories (a quarter, plus every history that brings a document under a published scenario) is executed a second time by another OS process and every recorded output must be byte-identical ('regardless of process'). Sampling, not proof: the right level because the property quantifies over unbounded histories and the only nondeterminism that matters (clock, entropy, in-memory vs durable state, map order) is owned or sampled by the simulator.",
   "Corpus = shipped example documents + seeded business edits. Map iteration order is not a seam Go offers: per-range order is sampled by repetition inside a process, per-process order (hash seed, order in which package-level maps were filled) by the second process; a replay of a process-dependent violation compares against four fresh processes. gobl is compiled with go1.26.8 for testing/synctest and testing/cryptotest.",
   "deterministic simulation: seeded histories with crash/restart, lost-write, re-encode and clock-jump faults against a byte-identity oracle"),
 "C08": ("fault_enumeration", "§5 C08",
   "Storage-fault enumeration between persist and restore of a calculated (and signed) envelope: thorough enumerates every JSON pointer of every corpus envelope with every applicable single content-changing fault (alter leaf, remove member, add member, swap/delete/duplicate array element, raw bit flip inside value bytes) and seeded content-preserving re-encodings (member order, whitespace, escape style); quick takes a seeded sample of pointer blocks. Oracle: re-encodings validate and recalculate to the same digest; every content change is refused on restore (parse error, validation error or digest error) and, after recalculation, yields a different digest whenever the recalculated content differs. A third sub-check applies the same clause to a change made in memory (typed API) after a restore; faults on the stored digest itself are included.",
   "Faults are restricted to changes that are semantic under any reading (no case-only changes, no renames, no unknown member names). 'Add member' candidates come from the corpus, not the schema files. One open known finding ($regime removal).",
   "deterministic fault enumeration over durable bytes (single storage fault per restore) with digest/validation oracle"),
 "C09": ("exploration", "§5 C09",
   "Seeded deterministic-simulation histories sign → modify → present, checked against a reference model of what the signature covers (a harness-owned snapshot of the seven header fields taken at signing). Every history presents the envelope to all seven verification entry points (Envelope.Verify, Envelope.VerifySignature, cli.Verify over a chunked simulated stream, bulk verify via cli.Bulk, HTTP /verify and /bulk handlers, the `gobl verify` cobra command) with the signer's key, another key and no key; signing itself (first signature and re-signing after later changes) is also requested through cli.Sign, the bulk sign action (CLI and HTTP) and `gobl sign`, and must give the library's verdict and content, exactly one more signature, the newest made by the key and covering the header it is in; an enumerated floor covers each header field × {alter, remove, add} × {with, without recalculation} per base document; longer seeded histories add crash-restart, lost write and re-encoding between signing and presentation. All entry points must agree with the model: success exactly when the header still contains what was signed, the key is the signer's and the envelope validates.",
   "Single-signer envelopes. The library's Verify is not asserted on documents edited without recalculation (header-only check by design); CLI paths must refuse those. Keys are fixed JWK constants; signature bytes are never compared, only outcomes.",
   "deterministic simulation: sign/modify/restart histories against a header-snapshot reference model, cross-checked over 7 entry points"),
 "C10": ("exploration", "§5 C10",
   "Refinement of the envelope API against a small executable reference model (digest-matches fact, document validity facts, signature list with header snapshots, header rules) over histories: exhaustive enumeration of every operation sequence up to length 3 (quick) / 4 (thorough) over a 15-operation alphabet and, in thorough, of every sequence of length 5 and 6 over an 8-operation core alphabet, on three base documents (two invoices and an order), plus seeded longer histories over 12 base documents of 6 document types with crash-restart, lost-write, re-encoding and damaged-signature-list faults injected between operations. Each step's outcome (ok / error key / signature count) must equal the model's prediction; in the seeded histories sign and validate steps are also put through cli.Sign / cli.Validate, the bulk actions (CLI and HTTP) and the cobra commands on the serialised envelope, where they must give the library's verdict for the same bytes; after every step every entry of the signature list must be a real JWS, or, when the list was damaged on disk, the envelope must be refused by validation and verification without panicking.",
   "Which documents are structurally valid is asked of the implementation on a fresh parse of the same bytes (the property is about how the facts combine over histories). After a signing that fails before appending, 'unchanged' and 'unsigned' are both accepted.",
   "deterministic simulation: exhaustive short histories + seeded long histories with restart faults, refinement against an executable reference model"),
 "C16": ("exploration", "§5 C16",
   "Seeded deterministic-simulation runs over every corpus invoice: the source envelope is optionally stamped (with the stamps its regime requires), signed and crash-restarted or re-encoded, the fake clock is placed at a seeded instant (day changes in UTC and in the regime's zone included), then the envelope is corrected (every invoice type × option subsets, Go options and raw JSON; sources also with their addons removed, replaced, or combined with further addons of the same regime so that several correction definitions apply at once) or replicated through the library, cli.Correct/Replicate over a chunked simulated stream, the bulk action (CLI and HTTP) and the cobra command at the same instant. Oracles: source bytes identical after the operation and after every later in-place mutation of the result (and vice versa); result unsigned, unstamped, new identifiers, no code, requested type, exactly one preceding reference with the source's identifier/type/series/code/date plus reason, extensions and required stamps, freshly calculated; refusal exactly as the published data/regimes and data/addons correction definitions demand; replica keeps parties and line inputs and is dated today; all entry points return the same document.",
   "Refusal is predicted from the published JSON definitions; 'today' may be the UTC or the regime-local date; sources without a code are skipped.",
   "deterministic simulation: clock/entropy-controlled correct/replicate histories with post-operation mutation (aliasing) and cross-entry-point agreement oracles"),
 "C12": ("exploration", "§5 C12",
   "Clock-driven simulation, exhaustive over the published tables × boundary dates: for every data/regimes/*.json table, category, rate key, dated value and tag-/extension-qualified variant, tax dates start−1, start, start+1, before-first-value and far-future (plus seeded dates in thorough) are realised by the simulated clock (local 00:00:00, 12:00:00 and 23:59:59 of the date in the regime's time zone, document without dates; one forward walk of ~30 simulated years per regime), by an explicit issue date and by an explicit value date; every explicit case is repeated with the combo carrying a stale percent and surcharge from an earlier calculation. Oracle from the published JSON: latest start ≤ D among applicable values, a value taking effect on its start date, exempt keys give no percent, no applicable value is an error, unqualified values strictly descending, and the issue date written equals the regime-local date of the simulated instant.",
   "Oracle tables are the published JSON files, not the Go structs; ties between applicable values accept any of the tied values; the fake clock only moves forward from 2000-01-01, earlier dates are realised explicitly.",
   "deterministic simulation: fake clock walked through every rate-change boundary in each regime's time zone, oracle from published tables"),
 "C07": ("fault_enumeration", "§5 C07",
   "Only the clauses of C07 that have an I/O dimension are claimed: the canonicaliser consumes an io.Reader token by token. Stream-fault enumeration over every JSON text the system produces or publishes (corpus envelopes and documents, published regime/addon/schema files, a few literals): every chunking regime including 1-byte and zero-length reads must reproduce the whole-buffer result; the stream ending after n bytes for every n (exhaustive for texts ≤ 4 KiB in thorough, seeded offsets above) must be rejected unless the prefix is one complete value; a reader failing after n bytes must give an error, never output; trailing non-whitespace and empty streams are rejected without panic; transport re-encodings (member order, whitespace, escape style, null members added first/last, re-chunked) must give identical canonical bytes, equal to a reference canonicaliser written from c14n/README.md, and canonicalise to themselves. The sorting/number/escape tables over arbitrary JSON values are a pure function and are NOT decided by this check beyond those texts.",
   "Texts are what the system itself serialises or ships plus a dozen literals; the reference canonicaliser does not assert floats with more than 15 significant digits nor the sign of zero.",
   "deterministic stream-fault enumeration (chunking, torn EOF at every offset, read errors, trailing bytes, re-encoding) over a simulated reader, reference-canonicaliser oracle"),
 "C14": ("fault_enumeration", "§5 C14",
   "Fault enumeration in child processes over every corpus document: member-level transport faults at every JSON pointer (member lost / nulled / retyped / duplicated, array element lost / duplicated / nulled, leaf altered, unknown currency / country / regime / addon / schema codes, empty / null / garbage signature entries, header without digest) and byte-level stream faults (torn EOF, read error, stall until the context is cancelled, cancellation before the read, bit flips, chunking, zero-length reads) through gobl.Parse, json.Unmarshal, c14n and cli.Build/Validate/Verify/Sign/Correct/Replicate over simulated readers; whatever parses goes through the full chain calculate → validate → digest → sign → verify → correct → replicate; amplification inputs (nesting depth up to 100 000, 1 MiB digit strings, thousands of lines); scheduler-controlled bulk streams (CLI and HTTP style) in which malformed requests are interleaved with well-formed ones; the HTTP handlers (/build, /verify, /key, /bulk, /) and the cobra commands given damaged requests, flags and input; and every corpus document (shipped examples plus synthetic variants) must build without panicking. Oracles: no panic (recovered per operation; a worker panic kills the child and is attributed by the parent), every error of the envelope API is a *gobl.Error with a key declared in errors.go that serialises to JSON, every CLI error is a *cli.Error with a status, a stalled read is released by cancelling its context, every bulk stream still delivers exactly one correct response per request and its final marker within the step bound.",
   "The arbitrary-bytes input space is covered only as far as these fault operators derive it from real documents. 25 open known findings of one class (a JSON null inside an array of objects is dereferenced) are listed in known_findings.json by panic site; any other panic site is a violation.",
   "deterministic fault enumeration (member/byte/stream faults, cancellation, amplification) with panic-site signatures; crash detection across child processes"),
 "C15": ("exploration", "§5 C15",
   "Five checks. (bulk, deterministic) seeded schedule search over 1–3 concurrent bulk streams, CLI-style and HTTP-style, of 1–40 mixed requests: gobl's decoder and worker goroutines park at build-tag-guarded yield hooks, the simulated reader, the consumer and a virtual clock are scheduler actions, and a seeded weighted scheduler with starvation directives grants one task at a time inside a synctest bubble; oracle: exactly one response per accepted request with its req_id and 1-based position, payload equal to the same request executed alone at the same simulated instant, one final marker, last, seq n+1, error iff the stream ended in a decode error, and completion within a step bound. (interleave, deterministic) 2–8 library callers over independent documents advanced in scheduler-chosen order, each step equal to the slot's solo run. (shared, deterministic) a deep fingerprint of every package-level variable of every gobl package (generated from the tree under test; slices hashed to capacity) is unchanged after every operation over every corpus document and every invoice × registered addon pairing. (race, racebulk: monitors) the same library workload, and free-running bulk streams with the HTTP-style ones on one shared server, in a -race binary at GOMAXPROCS 1/4/16; the pairing oracle is applied to what each client received.",
   "Bulk requests operate on independent documents, so per-request equality with the standalone execution is the complete sequential specification. The race check is a runtime monitor of the Go scheduler's own interleavings (labelled as such in the evidence); its replay re-runs the workload until the detector reports again.",
   "deterministic simulation: seeded parking scheduler over guarded yield hooks + shared-state fingerprint; race detector as monitor"),
}
na = {
 "C01": "pure function of the document: totals vs exact decimal arithmetic has no schedule, clock, fault or history in it (the only clock input, a missing issue date, enters no total)",
 "C02": "pure function of the taxable lines: grouping and summing has no schedule, clock, fault or history dimension",
 "C03": "a relation among the figures of one calculation result; nothing to schedule, delay or fail",
 "C05": "stateless value arithmetic on num.Amount/Percentage; no I/O, time or shared state",
 "C06": "the amount/percentage text codec works on complete byte slices, never on a stream; accept/reject is a pure function of the string",
 "C11": "schema validity and conformance of valid documents are static facts about files and a pure validator",
 "C13": "check-digit acceptance and normalisation are pure string functions per regime",
 "C17": "relates two calculations of a pure function (metamorphic input testing), no schedule, clock or fault involved",
 "C18": "soundness of validation against the definition tables is a pure function of document × static tables",
 "C19": "equality of shipped data files with generator output is a static artefact comparison; generation has no concurrency, clock or fault dimension",
 "C20": "merge/negate laws and payment sums are algebra over values; 'operands unaltered' involves no schedule, clock or fault, so a history would only be input generation under another name",
}
pending = {
}
hooks_commit = "659d564"
m = {
 "version": 1,
 "setup_cmd": "./check build race",
 "hooks": {
  "guard": "verif",
  "enable": "checks build /repo's working tree with `go1.26.8 test -c -tags verif -overlay <generated> ./cmd/gobl` (see ./check); with the tag off the hook functions are empty",
  "baseline_off_cmd": "cd /repo && go test -vet=off -count=1 ./...",
  "source_commits": [hooks_commit],
  "add_only": True,
 },
 "engines": [{
   "name": "verifsim", "path": "sim/", "serves_properties": sorted(claimed),
   "kind_free_text": "deterministic simulator compiled into gobl's module via go build -overlay: seeded plans (PCG from VERIF_SEED), synctest fake clock, cryptotest entropy, simulated readers/writers/contexts, in-memory durable store, parking scheduler over guarded yield hooks, reference models, delta-debugging minimiser, replay files",
 }],
 "checks": [],
 "notes": "exit 0 held / 1 VIOLATION (after the violation was reproduced from its replay file in a fresh process) / 2 infrastructure trouble. KNOWN-FINDING lines come from known_findings.json (read-only at run time). See DESIGN.md.",
 "not_applicable": [],
}
for pid in sorted(claimed):
    level, ref, text, note, tech = claimed[pid]
    m["checks"].append({
      "property_id": pid,
      "quick_cmd": f"./check {pid} quick",
      "thorough_cmd": f"./check {pid} thorough",
      "evidence_file": f"/verif/evidence/{pid}.json",
      "replay_cmd_template": f"./check {pid} --replay {{path}}",
      "engine": "verifsim",
      "level_claimed": {"category": level, "text": text, "design_ref": ref},
      "level_note": note,
      "technique": tech,
    })
for pid in sorted(na):
    m["not_applicable"].append({"property_id": pid, "reason": "not a simulation target: " + na[pid]})
for pid in sorted(pending):
    m["not_applicable"].append({"property_id": pid, "reason": pending[pid]})
json.dump(m, open("/verif/MANIFEST.json", "w"), indent=1)
print("claimed", sorted(claimed), "n/a", len(m["not_applicable"]))
