#!/bin/bash
# usage: tools/seedeval.sh <ID> <k> [tier]   — confirm a sub-agent's seeded change and run the property's check against it.
# Reads /tmp/sa/<ID>.out/<k>/{patch.diff,demo_test.go,notes.md}; works in a scratch worktree under /var/tmp; writes a summary to stdout.
set -u
export GOFLAGS=-mod=mod GOPROXY=off GOSUMDB=off
ID="$1"; K="$2"; TIER="${3:-quick}"
SRC="${SA_DIR:-/tmp/sa}/$ID.out/$K"
[ -f "$SRC/patch.diff" ] || { echo "no patch for $ID/$K"; exit 2; }
W=$(mktemp -d /var/tmp/seed.XXXXXX)
git -C /repo worktree add -q --detach "$W" HEAD || exit 2
cleanup() { git -C /repo worktree remove --force "$W" 2>/dev/null; KEY=$(printf '%s' "$W" | sha256sum | cut -c1-10); rm -rf "/verif/.build/$KEY"; }
trap cleanup EXIT
# where does the demo go?
DIR=$(head -3 "$SRC/demo_test.go" | grep -o -E '(\./)?[a-z0-9_/]+(/| |$)' | head -0; true)
PKGDIR=$(python3 - "$SRC/demo_test.go" <<'PY'
import re,sys
head=open(sys.argv[1]).read().split('\n')[:6]
txt=' '.join(head)
m=re.search(r'(?:directory|dir|in|under|into)\s+`?([./a-zA-Z0-9_\-]+)`?',txt)
cands=re.findall(r'`([./a-zA-Z0-9_\-]+)/?`',txt)+re.findall(r'(?:^|\s)(\.?/?(?:internal|cmd|bill|tax|c14n|dsig|head|schema|org|num|cal|regimes|addons|pay|currency|uuid|cbc)[a-zA-Z0-9_/\-]*)',txt)
pk=None
for c in cands:
    c=c.strip('./')
    if c and not c.endswith('.go'): pk=c; break
src=open(sys.argv[1]).read()
pm=re.search(r'^package\s+(\w+)',src,re.M)
print((pk or '')+'|'+(pm.group(1) if pm else ''))
PY
)
PKG="${PKGDIR%%|*}"; PNAME="${PKGDIR##*|}"
if [ -z "$PKG" ]; then
  case "$PNAME" in gobl|gobl_test) PKG=".";; *) PKG=$(cd "$W" && grep -rl --include=*.go "^package ${PNAME%_test}\$" . | head -1 | xargs dirname | sed 's|^\./||');; esac
fi
[ "$PNAME" = "gobl" ] || [ "$PNAME" = "gobl_test" ] && PKG="."
echo "demo package dir: $PKG (package $PNAME)"
cp "$SRC/demo_test.go" "$W/$PKG/zz_seed_demo_test.go"
RACE=""; grep -q -- "-race" "$SRC/demo_test.go" && RACE="-race"
RUNRE=$(grep -o -E 'func (Test[A-Za-z0-9_]+)' "$SRC/demo_test.go" | awk '{print $2}' | paste -sd'|')
echo "--- demo WITHOUT patch (must pass)"
(cd "$W" && go test $RACE -vet=off -count=1 -run "^($RUNRE)\$" ./$PKG 2>&1 | tail -3); r0=${PIPESTATUS[0]}
echo "--- apply patch"
git -C "$W" apply "$SRC/patch.diff" || { echo "PATCH DOES NOT APPLY"; exit 2; }
(cd "$W" && go build ./... ) || { echo "DOES NOT COMPILE"; exit 2; }
echo "--- demo WITH patch (must fail)"
(cd "$W" && go test $RACE -vet=off -count=1 -run "^($RUNRE)\$" ./$PKG 2>&1 | tail -4)
rm -f "$W/$PKG/zz_seed_demo_test.go"
echo "--- existing suite with patch (must pass)"
(cd "$W" && go test -vet=off -count=1 ./... > "$W/.suite.log" 2>&1; rc=$?; grep -v "^ok\|no test files" "$W/.suite.log" | head -10; echo "suite-exit=$rc"
 if [ $rc -ne 0 ]; then
   pkgs=$(grep "^FAIL\s" "$W/.suite.log" | awk '{print $2}' | sort -u | tr '\n' ' ')
   echo "re-running failing packages alone (the suite has a timing-dependent bulk test): $pkgs"
   go test -vet=off -count=2 $pkgs 2>&1 | tail -3; echo "suite-rerun-exit=${PIPESTATUS[0]}"
 fi)
PROP="${PROP:-}"
if [ -z "$PROP" ]; then
  case "$ID" in C[0-9][0-9]) PROP="$ID";; *) PROP=$(head -1 "$SRC/notes.md" | grep -o -E 'C[0-9]{2}' | head -1);; esac
fi
echo "--- ./check $PROP $TIER against the patched tree"
VERIF_REPO="$W" timeout 5400 /verif/check "$PROP" "$TIER" 2>&1 | grep -v "^KNOWN" | grep "^violation\|^VIOLATION\|^SUMMARY\|^INFRA\|^VERIF\|BUILD" | cut -c1-400 | tail -40
echo "check-exit=${PIPESTATUS[0]}"
