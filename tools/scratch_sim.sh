#!/bin/bash
# usage: tools/scratch_sim.sh <file_test.go (package main)> — runs TestScratch in cmd/gobl with the harness overlay
export GOFLAGS=-mod=mod GOPROXY=off GOSUMDB=off GOTOOLCHAIN=local
REPO="${VERIF_REPO:-/repo}"
F="$(cd "$(dirname "$1")" && pwd)/$(basename "$1")"
OV=$(mktemp /var/tmp/ov.XXXXXX.json)
python3 /verif/tools/mkoverlay.py $REPO /verif /verif/.build/none | python3 -c "
import json,sys
o=json.load(sys.stdin); o['Replace']['$REPO/cmd/gobl/zz_scratch_test.go']='$F'; json.dump(o,open('$OV','w'))"
cd $REPO && go1.26.8 test -tags verif -count=1 -vet=off -overlay $OV -run "${2:-TestScratch}" -v ./cmd/gobl 2>&1 | grep -v "^=== RUN\|^--- PASS\|^PASS\|^ok "
rm -f $OV
